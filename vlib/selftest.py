"""Encoding validation (DESIGN.md §4.3): SymStr vs str, symre vs re, loader transparency."""
import os
import random
import re
import subprocess
import sys
import time

ROOT = os.path.dirname(os.path.dirname(os.path.abspath(__file__)))
REPO = os.environ.get("ROPE_REPO", "/repo")


def _pinned(E, s, name="p"):
    """a SymStr whose characters are symbolic but pinned to `s` by assumptions"""
    from rsx.symstr import sym_str

    if not s:
        return s
    v = sym_str(name, len(s), ranges=((0, 255),))
    E.assume(v == s)
    return v


def _plain(x):
    from rsx.symstr import SymStr, SymBytes
    from rsx.core import SymInt, SymBool

    if isinstance(x, SymStr):
        m = _E.fresh_model()
        from rsx.symstr import concretize

        return concretize(x, m)
    if isinstance(x, (SymInt, SymBool, SymBytes)):
        from rsx.symstr import concretize

        return concretize(x, _E.fresh_model())
    if isinstance(x, (list, tuple)):
        return type(x)(_plain(y) for y in x)
    return x


_E = None


def test_symstr(n=1500, seed=1):
    global _E
    from rsx import core
    from rsx.core import Engine
    from rsx.symstr import tosym

    rnd = random.Random(seed)
    alpha = "ab\n\r \t_.#'\"\\9Z\xe9\xb2\x85\x1c"
    ops = [
        ("find", 1), ("rfind", 1), ("count", 1), ("startswith", 1), ("endswith", 1), ("split", 1), ("rsplit", 1),
        ("partition", 1), ("rpartition", 1), ("replace", 2), ("strip", 0), ("lstrip", 0), ("rstrip", 0), ("splitlines", 0),
        ("isalnum", 0), ("isalpha", 0), ("isdigit", 0), ("isdecimal", 0), ("isspace", 0), ("isidentifier", 0), ("isupper", 0),
        ("islower", 0), ("expandtabs", 0), ("__contains__", 1), ("join", -1), ("split", 0), ("isnumeric", 0), ("isascii", 0),
        ("strip", 1), ("index", 1), ("removeprefix", 1), ("removesuffix", 1),
    ]
    bad = []
    for it in range(n):
        s = "".join(rnd.choice(alpha) for _ in range(rnd.randint(0, 7)))
        name, nargs = rnd.choice(ops)
        if nargs == -1:
            args = ([("".join(rnd.choice(alpha) for _ in range(rnd.randint(0, 2)))) for _ in range(rnd.randint(0, 3))],)
        else:
            args = tuple("".join(rnd.choice(alpha) for _ in range(rnd.randint(1, 2))) for _ in range(nargs))
        if name in ("find", "rfind", "count", "index") and rnd.random() < 0.4:
            args = args + (rnd.randint(-3, 5), rnd.randint(-3, 8))
        if name == "splitlines" and rnd.random() < 0.5:
            args = (True,)
        try:
            exp = getattr(s, name)(*args)
        except ValueError:
            exp = "ValueError"
        for mode in ("concrete", "pinned"):
            _E = E = core.set_engine(Engine())

            def run():
                v = tosym(s) if mode == "concrete" else tosym(_pinned(E, s))
                try:
                    r = getattr(v, name)(*args)
                except ValueError:
                    return "ValueError"
                r = _plain(r)
                if isinstance(r, core.SymBool):
                    r = bool(r)
                return r

            res, done = E.explore(run)
            if E.stats["unsupported"]:
                bad.append((mode, s, name, args, "unsupported", E.unsupported_sites))
            elif len(res) != 1 or res[0] != exp or type(res[0]) is not type(exp):
                bad.append((mode, s, name, args, res, exp))
    return bad


HOSTILE = "ab_ 1.'\"\\#\n()[]{}rRbBfuU0xX+-eE,:=\t;"


def live_patterns():
    """every regex rope compiles, read from the live modules before they are shimmed"""
    sys.path.insert(0, REPO)
    pats = {}
    import rope.base.simplify as simplify
    import rope.base.codeanalyze as ca
    import rope.refactor.patchedast as pa
    import rope.refactor.similarfinder as sf
    import rope.refactor.inline as inl
    import rope.refactor.occurrences as occ
    import rope.base.fscommands as fsc

    pats["simplify._str"] = (simplify._str.pattern, simplify._str.flags)
    pats["simplify._parens"] = (simplify._parens.pattern, simplify._parens.flags)
    pats["codeanalyze._main_tokens"] = (ca.ChangeCollector.__module__ and ca._CustomGenerator._main_tokens.pattern, 0)
    s = pa._Source.__new__(pa._Source)
    pats["patchedast.number"] = (s._get_number_pattern(), 0)
    original = r"(?:{})|(?:{})".format(ca.get_string_pattern(), ca.get_formatted_string_pattern())
    pats["patchedast.string"] = (r"({})((\s|\\\n|#[^\n]*\n)*({}))*".format(original, original), 0)
    pats["codeanalyze.string"] = (ca.get_string_pattern(), 0)
    pats["codeanalyze.fstring"] = (ca.get_formatted_string_pattern(), 0)
    pats["patchedast.comma_in_with"] = (pa.COMMA_IN_WITH_PATTERN.pattern, 0)
    pats["similarfinder.template"] = (sf.CodeTemplate._get_pattern().pattern, 0)
    pats["inline.return"] = (inl._DefinitionGenerator._get_return_pattern().pattern, inl._DefinitionGenerator._get_return_pattern().flags)
    tf = occ._TextualFinder("ab")
    pats["occurrences.ab"] = (tf.pattern.pattern, tf.pattern.flags)
    bp = ca.get_block_start_patterns()
    pats["codeanalyze.block_start"] = (bp.pattern, bp.flags)
    pats["fscommands.coding"] = ("^[ \t\f]*#.*?coding[:=][ \t]*([-_.a-zA-Z0-9]+)", 0)
    return pats


def test_symre(n=400, seed=2):
    global _E
    pats = live_patterns()  # imported un-instrumented on purpose (only .pattern strings are used)
    from rsx import core, symre
    from rsx.core import Engine
    from rsx.symstr import tosym

    rnd = random.Random(seed)
    bad = []
    total = 0
    for pname, (pat, flags) in sorted(pats.items()):
        flags &= ~re.U
        real = re.compile(pat, flags)
        for it in range(n):
            s = "".join(rnd.choice(HOSTILE) for _ in range(rnd.randint(0, 9)))
            if pname == "occurrences.ab" and rnd.random() < 0.7:
                s = s[:4] + "ab" + s[4:]
            exp = [(m.span(), tuple(m.span(i + 1) for i in range(real.groups))) for m in real.finditer(s)]
            for mode in ("concrete", "pinned"):
                if mode == "pinned" and it % 4:
                    continue
                _E = E = core.set_engine(Engine())

                def run():
                    v = tosym(s) if mode == "concrete" else tosym(_pinned(E, s))
                    p = symre.Pattern(pat, flags)
                    p._real = None if isinstance(v, str) else p._real
                    v = tosym(v)
                    return [(m.span(), tuple(m.span(i + 1) for i in range(real.groups))) for m in p.finditer(v)]

                res, done = E.explore(run)
                total += 1
                if E.stats["unsupported"]:
                    bad.append((pname, mode, s, "unsupported", E.unsupported_sites))
                elif len(res) != 1 or res[0] != exp:
                    bad.append((pname, mode, s, res[:1], exp))
    return bad, total, sorted(pats)


def test_transparency():
    """rope's own suite under the instrumenting loader + shims must match the baseline counts"""
    env = dict(os.environ)
    env["PYTHONPATH"] = os.pathsep.join([os.path.join(ROOT, ".deps"), ROOT, REPO])
    t = time.time()
    p = subprocess.run(
        ["/venv/bin/python", "-m", "pytest", "-q", "-p", "no:cacheprovider", "-p", "vlib.pytest_rsx", "-x", "--timeout=900", "-n", "8"] if False else
        ["/venv/bin/python", "-m", "pytest", "-q", "-p", "no:cacheprovider", "-p", "vlib.pytest_rsx", "--timeout=900"],
        cwd=REPO, env=env, capture_output=True, text=True)
    tail = p.stdout.strip().splitlines()[-1] if p.stdout.strip() else p.stderr[-300:]
    return p.returncode, tail, time.time() - t


def main(args):
    rc = 0
    args = args or ["symstr", "symre"]
    if "symstr" in args:
        t = time.time()
        bad = test_symstr()
        print("selftest symstr: %d disagreements with str (%.1fs)" % (len(bad), time.time() - t))
        for b in bad[:8]:
            print("   ", b)
        rc |= bool(bad)
    if "symre" in args:
        t = time.time()
        bad, total, names = test_symre()
        print("selftest symre: %d disagreements with re over %d matches on %d live rope patterns (%.1fs)" % (len(bad), total, len(names), time.time() - t))
        for b in bad[:8]:
            print("   ", b)
        rc |= bool(bad)
    if "transparency" in args:
        code, tail, dt = test_transparency()
        print("selftest transparency: pytest under loader rc=%d: %s (%.0fs)" % (code, tail, dt))
        rc |= code != 0
    return 2 if rc else 0
