"""Source of MANIFEST.json: `python -m vlib.manifest_table` rewrites it."""
import json
import os

ROOT = os.path.dirname(os.path.dirname(os.path.abspath(__file__)))

TECH = "bounded symbolic execution of the real rope functions on z3-backed proxies (rsx engine: path-exhaustive DFS, one solver feasibility query per branch), property asserted per path by solver query / oracle at solver witness; counterexamples replayed on un-instrumented rope"

CHECKS = {
    "C14": dict(
        level="other",
        text="Solver-decided, path-exhaustive within stated bounds: rope's real simplify.ignored_regions/real_code, SourceLinesAdapter, custom_generator/CachingLogicalLineFinder and worder word/primary range run on symbolic text (finite hostile alphabets up to length L, literal/comment frames with fully symbolic ASCII bodies, symbolic offsets and line numbers); every feasible path is enumerated with z3 and compared with a reference lexer executed in the same path, itself cross-checked against tokenize at witnesses. Bounded model checking strength: holds for every text within the bounds, says nothing beyond them.",
        note="Trusted: z3, CPython, the rsx engine (proxies, symre validated against re on rope's live patterns, loader validated by rope's own suite), the reference lexer (validated against tokenize at witnesses). Bounds and alphabets are listed in the evidence file; A separate family puts a symbolic name into the replacement field of a literal under every prefix spelling: in an f-string (any order/case of r and f) real_code must keep it and Worder must find it, in any other literal it must be blanked. Nested replacement fields, CR line endings and LogicalLineFinder are outside this check.",
        design="§5 C14",
    ),
    "C16": dict(
        level="other",
        text="Solver-decided, path-exhaustive within stated bounds: the real File.read, ChangeContents/project.do, file_data_to_unicode, unicode_to_file_data, read_str_coding and _find_coding run on symbolic file bytes (body of up to L symbolic characters incl. U+00E9 and newlines, every newline convention x coding line x final-newline combination, symbolic edit positions and inserted text); z3 decides per path that the bytes written equal the original bytes (rewrite) or exactly the encoding of the spliced text (edit) and that the text reads back equal. Holds for every input within the bounds; nothing is claimed beyond them.",
        note="Trusted: z3, CPython, rsx (SymStr/SymBytes incl. its 1-2 byte UTF-8 model, symre), the in-memory fscommands stub. Assumes the file is valid in its declared encoding and uses one newline convention (the property's premise). Counterexamples are replayed on un-instrumented rope with the real file system.",
        design="§5 C16",
    ),
    "C12": dict(
        level="other",
        text="Solver-decided, path-exhaustive within stated bounds (serializer kernel): every data shape up to N nodes (tuple/list/dict nesting with str, int, None and tuple keys) is enumerated and every leaf is symbolic (strings of length 0-2 over digits, '$', letters and the non-ASCII digit U+00B2, unbounded ints, None), as is the format version; the real python_to_json/json_to_python run on the proxies and z3 enumerates all paths; on each, the decoded value must be type-exactly equal, the encoded value JSON-native, and the real json text round trip is executed at the witness. Two further instance families: (history) History._to_/from-data conversion of symbolic histories of 1-2 change sets over the model file system - every Change kind, symbolic contents and descriptions - must reproduce change sets whose undo restores the same symbolic file system; (reopen) a real project on the real file system performs solver-chosen histories, is closed and reopened, and its undo list, redo list and object database must read back equal (the pickle step is concrete: C boundary).",
        note="Trusted: z3, CPython, rsx, the model file system. Symbolic for the serializer and the history conversion; the close/reopen of real pickle files is behind a C boundary (pickle), so there the solver only chooses which concrete histories are exercised and the claim for that clause is bounded by that choice (stated in the evidence).",
        design="§5 C12",
    ),
    "C06": dict(
        level="other",
        text="Solver-decided, path-exhaustive within stated bounds (mapping algebra kernel): definition shape and changer pipeline shape are enumerated; parameter names, call keyword names and added names are symbolic (all coincidence patterns explored by z3), positional count, keyword count and every changer argument (index, permutation, default/value presence, autodef) are solver-split integers; rope's real DefinitionInfo._read, CallInfo.read, ArgumentMapping, all five changers and to_call_info/to_string rewrite the def and call texts; at every path witness the interpreter itself binds the original and the rewritten call and each surviving parameter must receive the same value. A second family (pipeline K06) runs the whole ChangeSignature.get_changes over small projects with symbolic identifier spellings (functions, methods, calls in a second module) and compares program output before and after.",
        note="Trusted: z3, CPython (as the binding oracle), rsx incl. symbolic parse. Valid-request premises are listed in the evidence. Found and fixed two genuine rope defects (see known_findings.json).",
        design="§5 C06",
    ),
    "C10": dict(
        level="other",
        text="Solver-decided inductive step, path-exhaustive within stated bounds: the real Project/ChangeSet/Change*/_ResourceOperations/FileSystemCommands/History/TaskHandle run on a model file system whose pre-state (kind and content of every path of a small universe) is a set of z3 variables constrained only by the tree invariant; composites of up to m sub-changes (kinds and targets solver-split) that rope itself can perform on that pre-state are re-run with exactly one injected fault at a symbolic file-system call index, or a task stop at a symbolic notification index, for project.do and history.undo; z3 decides per path that no model has a post-state different from the pre-state, and the history lists / error type are checked. Because the pre-state is arbitrary, one step covers histories of any length that reach a valid state, within the universe bound.",
        note="Trusted: z3, CPython, rsx, the model file system (POSIX semantics for the calls rope makes; validated by replaying every counterexample on the real file system). Single fault, raised before the primitive takes effect. RemoveResource.undo is unimplemented in rope (documented TODO): listed as a known finding. Two genuine defects found here were fixed in /repo (see known_findings.json).",
        design="§5 C10",
    ),
    "C18": dict(
        level="other",
        text="Solver-decided over crash points: the real Project.close() save sequence (write hooks of History and MemoryDB, _DataFiles.write_data) runs on the model file system and the process dies at the k-th file-system write event, k a z3 integer over every event of the sequence; pickle (a C boundary) is a stub whose behaviour on a partial stream is a solver-chosen exception from the documented set; then the real Project.__init__, History._load_history, _DataFiles.read_data, MemoryDB._load_files, get_pymodule and analyze_module run on what is on disk. All (crash point, exception kind) combinations are enumerated by the solver; none may raise and the loaded history must be the old, the new or an empty list; histories consist of content edits or of create / edit / remove of a resource (the removed path is gone when the history is read back). Counterexamples are replayed with real files and real pickle, truncating at every byte offset.",
        note="Trusted: z3, CPython, rsx.mfs, the pickle stub (its exception set is validated against real truncation of real data files at every byte offset on each run, recorded in the evidence). Process death only (no reordering of completed writes). The autoimport data files are outside the claim. One genuine defect found here was fixed in /repo.",
        design="§5 C18",
    ),
    "C11": dict(
        level="other",
        text="Solver-decided, path-exhaustive within stated bounds: the real History (do, undo, redo, undo(change), redo(change), drop, max_history_items, _FindChangeDependencies), ChangeSet and Change classes run on a model file system with a symbolic pre-state. (inverse) for every composite of up to m solver-chosen sub-changes that rope can perform, z3 decides that undo restores exactly the pre-state and redo exactly the post-state. (algebra) for every sequence of up to D solver-chosen history operations and limit in 0..3, after every step z3 decides that the tree equals a reference replay, from the initial state with primitive operations, of exactly the changes in force; the set rope (un)does for a selected change must equal the reference dependency closure; limit, redo-clearing and refusal-without-effect are checked.",
        note="Trusted: z3, CPython, rsx, the model file system, the 40-line reference replay. RemoveResource.undo is unimplemented in rope (known finding). Counterexamples are replayed on the real file system.",
        design="§5 C11",
    ),
    "C02": dict(
        level="other",
        text="Solver-decided, path-exhaustive within stated bounds (Pattern B): rope's whole occurrence pipeline (findit.find_occurrences -> occurrences.Finder/PyNameFilter -> evaluate.ScopeNameFinder -> pyscopes/pyobjectsdef scope visitors -> worder/simplify) runs on projects of corpus K01 whose identifier spellings are symbolic; z3 enumerates every equality pattern among the slots (aliasing, shadowing, same spelling inside strings/comments) and every further character distinction rope makes; the query occurrence ranges over all slot occurrences. On every path rope's answer is compared, both directions, with the token set the reference binder assigns to the same (scope, name) binding across all modules.",
        note="Trusted: z3, CPython, rsx (symbolic parse via placeholder text, symre), the reference binder pybind (validated against symtable on generated programs). Five classes of genuine scoping defects found here are listed in known_findings.json (comprehension, lambda, nonlocal, default-expression, walrus-in-comprehension); every other discrepancy is a VIOLATION. Bound: corpus K01, one-letter identifiers.",
        design="§5 C02",
    ),
    "C01": dict(
        level="other",
        text="Solver-decided, path-exhaustive within stated bounds (Pattern B + kernel): rename.Rename(...).get_changes with symbolic identifier spellings and a symbolic fresh new name over corpus K01 (z3 enumerates every equality pattern among the slots and every further character distinction rope makes; the renamed occurrence ranges over all slot occurrences); the changes are applied to the symbolic texts and, at the path witness, the result must parse, group the identifier tokens into bindings exactly as before (alpha-equivalence under the reference binder) and print the same output / raise the same exception when run; RefactoringError is an accepted refusal. Kernel: codeanalyze.ChangeCollector on fully symbolic text with up to three symbolic non-overlapping edits in arbitrary insertion order, result equal to the specification splice (solver query).",
        note="Trusted: z3, CPython (running the programs), rsx, pybind. Genuine defects found are listed in known_findings.json (default-expression, class-body fall-through, comprehension, lambda, nonlocal, import-then-rebind). Bound: corpus K01, one-letter identifiers, docs=False.",
        design="§5 C01",
    ),
    "C15": dict(
        level="other",
        text="Solver-decided, path-exhaustive within stated bounds (Pattern B): the scope visitors of pyobjectsdef and the scope classes of pyscopes (GlobalScope/FunctionScope/ClassScope/ComprehensionScope, lookup/_propagated_lookup, _HoldingScopeFinder) run on the modules of corpus K15 (one skeleton per binding construct and nesting combination) with symbolic identifier spellings, so that z3 enumerates every way the same spelling can be bound at several levels; at each path witness rope's scope tree (kind, first/last line), per-scope name tables, global/nonlocal handling, scope.lookup() of every name used in every scope and get_inner_scope_for_line over every line are compared with the reference binder (language rules, cross-checked with symtable).",
        note="Trusted: z3, CPython, rsx, pybind. Lambda scopes are not demanded (not listed by the property). Six classes of genuine defects are known findings (positional-only/keyword-only parameters, match captures, nonlocal, global declarations, walrus in comprehensions, comprehensions inside functions); each discrepancy category must be known for a failure to be suppressed.",
        design="§5 C15",
    ),
    "C08": dict(
        level="other",
        text="Two solver-decided layers. (1) Unbounded: rope's live number, string and comment patterns (read from /repo on every run) are translated to z3 regular-expression terms and z3 decides, for strings of any length, that the tokenizer's literal grammar is included in rope's pattern; a sat answer yields a literal that is replayed through get_patched_ast. (2) Bounded, path-exhaustive: patch_ast/write_ast (the _PatchingASTWalker handlers, _Source.consume/_good_token/rfind_token/_handle_parens) run on the templates of corpus K08 (one per grammar production family, several layouts with comments inside brackets, continuation lines, parentheses) whose comment bodies are fully symbolic printable-ASCII strings and whose identifiers are symbolic; write_ast(node) == source is a solver query; at each witness every statement and expression node must carry a region, which must lie inside its parent's, equal the interpreter's node extent and re-parse to the same node.",
        note="Trusted: z3 (incl. its regular-expression theory), CPython's ast as position oracle, rsx. Free layout of whole programs is outside the claim. Four defects fixed in /repo (number literals; else block of try/except/else/finally, class keywords and keyword-only / positional-only parameters left without regions); two region deviations are known findings (Starred, nested format spec).",
        design="§5 C08",
    ),
    "C03": dict(
        level="other",
        text="Solver-decided, path-exhaustive within stated bounds (Pattern B): ExtractMethod / ExtractVariable get_changes (extract._ExtractInfo, _ExtractCollector, _ExtractPerformer, _FunctionInformationCollector data-flow analysis, similarfinder, sourceutils) run on the skeletons of corpus K03 with symbolic identifier spellings and a symbolic fresh extracted name; every contiguous run of complete statements at every nesting level and every sub-expression of the target body is a region (exactly the property's quantifier, computed from the AST), similar/global_/method-vs-variable are solver-split; z3 enumerates every coincidence between names read or written in the region and names around it. Each path's result must be a RefactoringError or a project that parses and prints the same output / raises the same exception for every driver input.",
        note="Trusted: z3, CPython (running the programs), rsx. Behaviour = stdout + exception type of drivers that reach every branch. Genuine defect classes are known findings, matched by root-cause tags computed from the failing program (a failure is suppressed only if all its tags are known). Bound: corpus K03, one-letter identifiers, fresh extracted name.",
        design="§5 C03",
    ),
    "C04": dict(
        level="other",
        text="Solver-decided, path-exhaustive within stated bounds (Pattern B): inline.create_inline(...).get_changes (InlineMethod/InlineVariable/InlineParameter, _DefinitionGenerator, _InlineFunctionCallsForModuleHandle, functionutils.ArgumentMapping) over corpus K04 (definition with 1-3 call sites in 1-2 modules, positional/keyword/default mixes, methods, variables, parameters) with symbolic identifier spellings: z3 enumerates every capture between the inlined body's parameters/locals and the names at the call sites; the query occurrence and the remove/only_current mode are solver-split. Each result is a refusal or must parse, keep every module importable and print the same output.",
        note="Trusted: z3, CPython (running the programs), rsx. Fourteen hazard classes in which rope's textual inlining is wrong are known findings (one more was a crash and is fixed in /repo); each is a root-cause tag computed from the failing program together with the way the failure shows (tag@manifestation), and only combinations triaged on the unchanged tree are listed, identified by root-cause tags computed from the failing program; a failure is suppressed only if all its tags are known hazards. Bound: corpus K04, one-letter identifiers.",
        design="§5 C04",
    ),
    "C07": dict(
        level="other",
        text="Solver-decided, path-exhaustive within stated bounds (Pattern B): ImportOrganizer.organize_imports / expand_star_imports / froms_to_imports / relatives_to_absolutes / handle_long_imports (importutils.ImportTools, module_imports, actions, importinfo) over corpus K07 in a multi-module project; spellings of aliases and used names are symbolic, so used-or-unused, duplicate-or-not, alias-shadows-import and the lexicographic sort order are solver-explored; split_imports / pull_imports_to_top / sort_imports_alphabetically are solver-split. Each result must parse, keep every module importable, print the same output, and a second application must change nothing.",
        note="Trusted: z3, CPython, rsx. Module and package names are concrete. Two genuine defects are known findings.",
        design="§5 C07",
    ),
    "C05": dict(
        level="other",
        text="Solver-decided, path-exhaustive within stated bounds (Pattern B): move.create_move (MoveGlobal for functions, classes and variables; MoveModule into a package incl. relative imports; MoveMethod), module rename and ModuleToPackage over layouts K05 whose clients reach the moved object through plain, dotted, from, aliased and relative imports; in-module identifier spellings are symbolic, so the moved code's free names colliding with destination names and aliases colliding with locals are solver-explored. Each result is a refusal or must parse, keep every module importable and print the same output through every client import style.",
        note="Trusted: z3, CPython, rsx. Module/package/file names are concrete. Nine hazard classes of MoveGlobal are known findings (tag@manifestation); one more (stale relative from-import in clients) was fixed in /repo identified by root-cause tags; a failure is suppressed only if all its tags are known.",
        design="§5 C05",
    ),
    "C17": dict(
        level="other",
        text="Solver-decided, path-exhaustive within stated bounds (Pattern B): EncapsulateField, IntroduceFactory, MethodObject, LocalToField and UseFunction get_changes over corpus K17 (field read/written/augmented inside and outside the class and from a second module, class constructed in several places, function with locals, method with a local, function whose body recurs) with symbolic identifier spellings (field vs local vs parameter collisions) and solver-split options; each result is a refusal or must parse, keep every module importable and print the same output.",
        note="Trusted: z3, CPython, rsx. Bound: corpus K17, one-letter identifiers.",
        design="§5 C17",
    ),
    "C19": dict(
        level="other",
        text="Solver-decided, path-exhaustive within stated bounds (Pattern B): SimilarFinder.get_matches (RawSimilarFinder, _ASTMatcher, CodeTemplate) on corpus K19 with symbolic identifier spellings - 'equal wildcards bound to equal code' is decided by whether z3 makes the spellings coincide - and solver-split region bounds; rope's matches must equal those of a reference structural matcher (extent, containment in the region, equal bound trees), for expression patterns and for statement patterns (runs of consecutive statements in every statement list: bodies, handlers, else and finally blocks); the thorough tier generates the patterns from the module's own expressions. Restructure.get_changes with goal = pattern must leave ast.dump unchanged; with commuted / re-expressed goals over precedence-sensitive instances the program must parse and print the same output.",
        note="Trusted: z3, CPython, rsx, the 50-line reference matcher. One genuine defect class (parentheses of bound operands dropped) is a known finding.",
        design="§5 C19",
    ),
    "C20": dict(
        level="other",
        text="Solver-decided, path-exhaustive within stated bounds (Pattern B): contrib.codeassist.code_assist and get_definition_location (_PythonCodeAssist, fixsyntax.FixSyntax, worder.get_splitted_primary_before, scope lookup) over corpus K20 with symbolic identifier spellings - two-letter slots share or do not share their first letter, so prefix relations between visible names are solver-explored - with the cursor at every (quick: every third) character position, the current line intact or truncated at the cursor, later_locals solver-split. No exception other than rope's own may escape; every proposal extends the typed prefix and is a keyword, a builtin, a keyword-argument of a function of the module or a name visible there under Python's scoping rules; every visible name bound before the cursor line with that prefix is offered; go-to-definition on an identifier leads to a line where its binding is bound - on valid modules and, in a separate family, below an unfinished try block whose last line is being typed (the repair inserts lines; judged on a valid twin with the same lines).",
        note="Trusted: z3, CPython, rsx, pybind. Dotted completions, import lines, def/class header lines and positions inside strings/comments are checked for 'no internal error' and prefix only. Bound: corpus K20, identifiers of one or two letters.",
        design="§5 C20",
    ),
    "C09": dict(
        level="other",
        text="Solver-decided, path-exhaustive within stated bounds (Pattern B with monitors): for 14 public entry points (rename, extract method/variable, inline, move, change signature, introduce parameter, encapsulate field, introduce factory, method object, local to field, use function, find occurrences, find definition) at every (quick: every fifth) character position of the corpus modules, with symbolic identifier spellings, z3 enumerates all paths; on each, an escaping exception must be a RopeError and the project directory is compared byte for byte before and after computing the changes (also on refusal paths). On a layout with an out-of-project module, an ignored resource and a sibling folder, the change sets of rename / inline / move / change-signature must stay inside the root and off the ignored resource; a second containment family (13 requests: MoveMethod onto attributes whose class is out of project / ignored, inline of a function defined out of project, and the resources= restriction for rename, inline, change signature, move method, use function, encapsulate field, introduce factory) must stay inside the listed resources; replays perform the changes on the real file system and compare the touched paths with get_changed_resources().",
        note="Trusted: z3, CPython, rsx. 'Performing touches exactly what was announced' is executed on concrete witness projects (in the replay path and the containment instances), not symbolically. Five genuine defects found here were fixed in /repo.",
        design="§5 C09",
    ),
    "C13": dict(
        level="other",
        text="Solver-decided, path-exhaustive within stated bounds (Pattern C): the real Project, PyCore, _ModuleCache, _FileListCacher, FilteredResourceObserver and ChangeIndicator run on the model file system with a symbolic pre-state (which paths exist; symbolic module contents), a solver-chosen warm-up and a solver-chosen sequence of mutations through rope (write, create, move, remove, undo) and behind its back (edit, create, remove directly on the model, mtime advanced) followed by validate(); after every step the long-lived project's file list, Python-file list, module lookup for every module name of the universe, module source (solver equality on symbolic text) and defined names must equal those of a brand-new Project over the same model state. Counterexamples are replayed on the real file system.",
        note="Trusted: z3, CPython, rsx.mfs. Assumes an external modification changes mtime or size (A7). Not covered (C boundary / not modelled): the sqlite autoimport index, the object-info database, occurrence search and inferred attribute sets.",
        design="§5 C13",
    ),
}

NOT_YET = "check not built yet (see DESIGN.md §5 for the planned decision procedure)"
NA = {}


def main():
    props = [json.loads(l)["id"] for l in open(os.path.join(ROOT, "properties.jsonl"))]
    checks = []
    for pid in props:
        if pid not in CHECKS:
            continue
        c = CHECKS[pid]
        checks.append(
            {
                "property_id": pid,
                "quick_cmd": "./check %s --tier quick" % pid,
                "thorough_cmd": "./check %s --tier thorough" % pid,
                "evidence_file": "/verif/evidence/%s.json" % pid,
                "replay_cmd_template": "./check replay {path}",
                "engine": "rsx",
                "level_claimed": {"category": c["level"], "text": c["text"], "design_ref": c["design"]},
                "level_note": c["note"],
                "technique": c.get("technique", TECH),
            }
        )
    man = {
        "version": 1,
        "setup_cmd": "./bin/setup",
        "hooks": {
            "guard": "ROPE_VERIF",
            "enable": "none needed: the rsx loader instruments rope.* at import time from /repo's working tree; nothing in /repo is edited for instrumentation",
            "baseline_off_cmd": "cd /repo && /venv/bin/python -m pytest -ra -q -p no:cacheprovider --timeout=900 --continue-on-collection-errors",
            "source_commits": [],
            "add_only": True,
        },
        "engines": [
            {
                "name": "rsx",
                "path": "/verif/rsx",
                "serves_properties": sorted(CHECKS),
                "kind_free_text": "z3-backed symbolic executor that runs rope's own Python functions natively on proxy values (symbolic characters, integers, booleans); DFS over solver-feasible paths by re-execution; symbolic regex matcher; symbolic parse via placeholder text; model file system",
            },
            {
                "name": "rx2z3",
                "path": "/verif/rsx/rx2z3.py",
                "serves_properties": [p for p in ("C08", "C14") if p in CHECKS],
                "kind_free_text": "translation of rope's live re patterns to z3 regular-expression terms; unbounded-length language inclusion queries against tokenize's grammar",
            },
        ],
        "checks": checks,
        "not_applicable": [{"property_id": p, "reason": NA.get(p, NOT_YET)} for p in props if p not in CHECKS],
        "notes": "All checks are solver-based (z3) symbolic execution of the real rope code; see DESIGN.md. Exit 2 = inconclusive (never reported as a pass).",
    }
    with open(os.path.join(ROOT, "MANIFEST.json"), "w") as fh:
        json.dump(man, fh, indent=1)
        fh.write("\n")


if __name__ == "__main__":
    main()
