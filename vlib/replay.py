"""Replay one counterexample file against UN-instrumented rope (fresh interpreter, no loader).
Prints `REPLAY {json}`; the harness module's replay(failure) does the work through rope's public API."""
import importlib
import json
import sys


def main():
    path = sys.argv[1]
    f = json.load(open(path))
    assert not any(type(m).__name__ == "Finder" and "rsx" in type(m).__module__ for m in sys.meta_path)
    mod = importlib.import_module(f["harness"] + "_replay")
    try:
        res = mod.replay(f)
    except Exception as e:  # replay harness itself broke
        import traceback

        res = dict(reproduced=None, signature="", detail="replay raised %s: %s\n%s" % (type(e).__name__, e, traceback.format_exc()[-800:]))
    print("REPLAY " + json.dumps(res))


if __name__ == "__main__":
    main()
