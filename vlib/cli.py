"""Driver: ./check <Cxx> --tier quick|thorough   |   ./check replay <file>   |  ./check selftest ...

Exit 0: every path of every harness instance of the tier completed and held (or only known
findings).  Exit 1: a new, replay-confirmed violation (VIOLATION line).  Exit 2: inconclusive
(unsupported call site, solver unknown, non-reproducing counterexample, budget exceeded)."""
import argparse
import hashlib
import importlib
import json
import multiprocessing as mp
import os
import subprocess
import sys
import time
import traceback

ROOT = os.path.dirname(os.path.dirname(os.path.abspath(__file__)))
REPO = os.environ.get("ROPE_REPO", "/repo")
# evidence and replay files of a run against a scratch tree (seeded changes) go elsewhere
OUT_ROOT = os.environ.get("VERIF_OUT", ROOT)
PY = "/venv/bin/python"


def _worker_init():
    sys.setrecursionlimit(20000)


def _run_one(args):
    modname, iname, params, seconds = args
    t0 = time.time()
    try:
        mod = importlib.import_module(modname)
        st = mod.run_instance(iname, params, seconds)
        st["instance"] = iname
        return st
    except BaseException as e:  # harness error: reported as inconclusive, never as a pass
        return dict(instance=iname, harness_error="%s: %s" % (type(e).__name__, e), tb=traceback.format_exc()[-1500:],
                    paths=0, vacuous=0, checks=0, decisions=0, solver_s=0.0, unsupported=0, ok=0, failing_paths=0, refused=0,
                    exhaustive=False, wall_s=round(time.time() - t0, 2), fails=[], samples=[], functions=[], unsupported_sites={})


def load_findings():
    p = os.path.join(ROOT, "known_findings.json")
    if not os.path.exists(p):
        return []
    return json.load(open(p)).get("findings", [])


def finding_for(prop, sig, findings):
    """the open known finding a replay signature falls under, or None.  A signature of the form
    `head|cat1|cat2|...` lists independent discrepancy categories: it is known only if EVERY
    category matches a pattern of some open finding (the first one found is reported)."""
    import re as _re

    class fnmatch:  # '*' is the only wildcard; everything else (incl. brackets) is literal
        @staticmethod
        def fnmatchcase(text, pat):
            return _re.fullmatch(".*".join(_re.escape(x) for x in pat.split("*")), text, _re.S) is not None

    if "|" in sig:
        head, *cats = sig.split("|")
        first = None
        for cat in cats:
            hit = None
            for f in findings:
                if f.get("property") != prop or f.get("status", "open") != "open":
                    continue
                if any(fnmatch.fnmatchcase(cat, pat) for pat in f.get("categories", [])):
                    hit = f
                    break
            if hit is None:
                return None
            first = first or hit
        return first
    for f in findings:
        if f.get("property") != prop or f.get("status", "open") != "open":
            continue
        for pat in f.get("signatures", []):
            if fnmatch.fnmatchcase(sig, pat):
                return f
    return None


def run_replay(path, seeds=("0", "1", "2", "3")):
    """replay one counterexample file on UN-instrumented rope in a fresh interpreter.
    returns dict(reproduced=bool, signature=str, detail=str).  rope's output can depend on set
    iteration order (e.g. the order of imports with equal sort keys), so a counterexample that
    does not reproduce under one PYTHONHASHSEED is retried under a few others before it is
    declared non-reproducing."""
    res = None
    for seed in seeds:
        env = dict(os.environ)
        env["PYTHONPATH"] = REPO + os.pathsep + ROOT
        env["PYTHONHASHSEED"] = seed
        env.pop("ROPE_VERIF", None)
        p = subprocess.run([PY, "-m", "vlib.replay", path], cwd=ROOT, env=env, capture_output=True, text=True, timeout=600)
        last = [l for l in p.stdout.splitlines() if l.startswith("REPLAY ")]
        if not last:
            return dict(reproduced=None, signature="", detail="replay crashed: " + (p.stderr or p.stdout)[-600:])
        res = json.loads(last[-1][7:])
        if res["reproduced"] is not False:
            return res
    return res


def check(prop, tier, seed, only=None, jobs=None, budget=None, max_wall=None):
    t0 = time.time()
    aborted = None
    modname = "harness." + prop.lower()
    mod = importlib.import_module(modname)
    insts = mod.instances(tier)
    if only:
        insts = [i for i in insts if any(o in i[0] for o in only)]
    if not insts:
        print("INCONCLUSIVE: no instance selected")
        return 2
    import random

    random.Random(seed).shuffle(insts)  # VERIF_SEED permutes the visiting order only
    seconds = budget or getattr(mod, "INSTANCE_SECONDS", {}).get(tier, 900)
    jobs = jobs or min(16, os.cpu_count() or 4)
    work = [(modname, name, params, seconds) for name, params in insts]
    ctx = mp.get_context("fork")
    results = []
    if jobs == 1 or len(work) == 1:
        _worker_init()
        results = [_run_one(w) for w in work]
    else:
        with ctx.Pool(jobs, initializer=_worker_init, maxtasksperchild=getattr(mod, "TASKS_PER_CHILD", None)) as pool:
            it = pool.imap_unordered(_run_one, work, chunksize=1)
            while True:
                try:
                    left = None if not max_wall else max(1, max_wall - (time.time() - t0))
                    results.append(it.next(left))
                except StopIteration:
                    break
                except mp.TimeoutError:
                    pool.terminate()
                    aborted = "global wall limit of %ss reached with %d of %d instances finished" % (max_wall, len(results), len(work))
                    break
    results.sort(key=lambda r: r["instance"])
    findings = load_findings()
    # --- triage failures: dedupe by (kind, signature), replay on un-instrumented rope
    inconclusive = []
    if aborted:
        inconclusive.append(aborted)
    for r in results:
        if r.get("harness_error"):
            inconclusive.append("harness error in %s: %s\n%s" % (r["instance"], r["harness_error"], r.get("tb", "")))
        if r["unsupported"]:
            inconclusive.append("unsupported operations in %s: %s" % (r["instance"], r["unsupported_sites"]))
        if not r["exhaustive"] and not r.get("harness_error"):
            inconclusive.append("instance %s did not finish within its budget (%ss)" % (r["instance"], seconds))
    rdir = os.path.join(OUT_ROOT, "replays", prop)
    os.makedirs(rdir, exist_ok=True)
    groups = {}
    for r in results:
        for f in r["fails"]:
            f = dict(f)
            f["property"] = prop
            f["harness"] = modname
            f["instance"] = r["instance"]
            key = (f["kind"], f.get("sig_hint", ""), r["instance"])
            groups.setdefault(key, []).append(f)
    violations = []
    known = {}
    nonrepro = []
    replayed = 0
    max_per_group = getattr(mod, "REPLAYS_PER_GROUP", 2)
    todo = []
    for key, fs in sorted(groups.items()):
        for f in fs[:max_per_group]:
            blob = json.dumps(f, sort_keys=True)
            path = os.path.join(rdir, hashlib.sha1(blob.encode()).hexdigest()[:12] + ".json")
            with open(path, "w") as fh:
                fh.write(blob)
            todo.append((path, f))
    # every replay is its own interpreter: run them side by side
    from concurrent.futures import ThreadPoolExecutor

    with ThreadPoolExecutor(max_workers=jobs) as ex:
        replies = list(ex.map(lambda pf: run_replay(pf[0]), todo))
    for (path, f), res in zip(todo, replies):
        replayed += 1
        if res["reproduced"] is None:
            inconclusive.append("replay error for %s: %s" % (path, res["detail"]))
            continue
        if not res["reproduced"]:
            nonrepro.append((path, f["kind"], res["detail"]))
            os.replace(path, os.path.join(rdir, "nonrepro-" + os.path.basename(path)))  # kept for diagnosis
            continue
        sig = res.get("signature") or f["kind"]
        kf = finding_for(prop, sig, findings)
        if kf is not None:
            known.setdefault(kf["id"], (kf, sig))
            if os.path.exists(path):
                os.remove(path)
        else:
            violations.append((path, sig, res["detail"]))
    for path, kind, detail in nonrepro:
        inconclusive.append("counterexample (%s) did not reproduce on un-instrumented rope: %s" % (kind, detail))
    # --- evidence
    tot = lambda k: sum(r.get(k, 0) for r in results)  # noqa: E731
    funcs = sorted({f for r in results for f in r["functions"]})
    samples = [s for r in results for s in r["samples"]][:6]
    if not samples:
        samples = [{"instance": r["instance"], "paths": r["paths"]} for r in results[:3]]
    wall = round(time.time() - t0, 2)
    exhaustive = all(r["exhaustive"] for r in results) and not inconclusive
    ev = {
        "property_id": prop,
        "tier": tier,
        "seed": seed,
        "level": "other",
        "wall_s": wall,
        "violations": len(violations),
        "assumptions": list(getattr(mod, "ASSUMPTIONS", [])),
        "coverage": {
            "explanation": "bounded symbolic execution of rope's real functions (loaded from /repo's working tree through "
            "the rsx instrumenting loader) on z3-backed proxy values: every branch on a symbolic value is a solver "
            "feasibility query, all feasible paths within the stated bounds are enumerated by depth-first re-execution, "
            "the property is asserted at the end of every path (solver query or executable oracle at a solver witness); "
            "counterexamples are replayed on un-instrumented rope before being reported. " + getattr(mod, "EXPLANATION", ""),
            "evaluations": tot("paths"),
            "distinct_nontrivial": tot("ok") + tot("failing_paths"),
            "rule": "one evaluation = one feasible execution path (a distinct path condition over the symbolic inputs; "
            "each stands for every input satisfying it); non-trivial = the path satisfied the harness preconditions and "
            "reached the property assertion (paths dropped by assume() are counted in paths_vacuous)",
            "samples": samples,
            "exhaustive": exhaustive,
            "instances": len(results),
            "paths_completed": tot("paths"),
            "paths_holding": tot("ok"),
            "paths_failing": tot("failing_paths"),
            "paths_vacuous": tot("vacuous"),
            "paths_refused_by_rope": tot("refused"),
            "solver": "z3 %s (QF_LIA via python API)" % _z3ver(),
            "solver_queries": tot("checks"),
            "solver_time_s": round(sum(r["solver_s"] for r in results), 2),
            "decisions": tot("decisions"),
            "unsupported_paths": tot("unsupported"),
            "counterexamples_replayed_on_real_rope": replayed,
            "known_findings_hit": sorted(known),
            "functions_encoded": funcs,
            "bounds": getattr(mod, "BOUNDS", {}).get(tier, getattr(mod, "BOUNDS", {})),
            "outside_bounds": getattr(mod, "OUTSIDE", ""),
            "stubs": getattr(mod, "STUBS", []),
            # vacuity guard: instances in which no path reached an assertion (every path was outside the premise)
            "instances_without_a_checked_path": sorted(r["instance"] for r in results if r.get("paths", 0) and not r.get("ok", 0) and not r.get("failing_paths", 0) and not r.get("refused", 0))[:200],
            "per_instance": [
                {k: r[k] for k in ("instance", "paths", "vacuous", "ok", "failing_paths", "checks", "exhaustive", "wall_s")}
                for r in results
            ][:1500],
            "inconclusive": inconclusive[:20],
            "repo_head": _repo_head(),
        },
    }
    extra = getattr(mod, "extra_evidence", None)
    if extra:
        ev["coverage"].update(extra(results))
    os.makedirs(os.path.join(OUT_ROOT, "evidence"), exist_ok=True)
    with open(os.path.join(OUT_ROOT, "evidence", prop + ".json"), "w") as fh:
        json.dump(ev, fh, indent=1, sort_keys=True)
    # --- report
    print("%s tier=%s instances=%d paths=%d holding=%d failing=%d vacuous=%d solver_queries=%d solver_s=%.1f wall=%.1fs" % (
        prop, tier, len(results), tot("paths"), tot("ok"), tot("failing_paths"), tot("vacuous"), tot("checks"),
        sum(r["solver_s"] for r in results), wall))
    hollow = [r["instance"] for r in results if r.get("paths", 0) and not r.get("ok", 0) and not r.get("failing_paths", 0) and not r.get("refused", 0)]
    if hollow:
        print("NOTE: %d of %d instances reached no assertion (all their paths are outside the premise): %s%s" % (len(hollow), len(results), ", ".join(sorted(hollow)[:6]), " ..." if len(hollow) > 6 else ""))
    for kid, (kf, sig) in sorted(known.items()):
        print("KNOWN-FINDING: property=%s %s [%s] (%s)" % (prop, kf["what"], kid, sig))
    for path, sig, detail in violations:
        print("VIOLATION property=%s replay=%s" % (prop, path))
        print("  signature: %s\n  %s" % (sig, detail))
    if violations:
        return 1
    if inconclusive:
        for m in inconclusive[:10]:
            print("INCONCLUSIVE: " + m)
        return 2
    return 0


def _z3ver():
    try:
        import z3

        return z3.get_version_string()
    except Exception:
        return "?"


def _repo_head():
    try:
        h = subprocess.run(["git", "-C", REPO, "rev-parse", "--short", "HEAD"], capture_output=True, text=True).stdout.strip()
        d = subprocess.run(["git", "-C", REPO, "status", "--porcelain", "--untracked-files=no"], capture_output=True, text=True).stdout.strip()
        return h + ("+dirty" if d else "")
    except Exception:
        return "?"


def main(argv=None):
    ap = argparse.ArgumentParser()
    ap.add_argument("what")
    ap.add_argument("rest", nargs="*")
    ap.add_argument("--tier", default=os.environ.get("VERIF_TIER", "quick"))
    ap.add_argument("--only", action="append")
    ap.add_argument("--jobs", type=int)
    ap.add_argument("--budget", type=int)
    ap.add_argument("--max-wall", type=int)
    a = ap.parse_args(argv)
    seed = int(os.environ.get("VERIF_SEED", "0") or 0)
    # one scratch directory per run (workers are forked and killed without atexit; replays are
    # separate interpreters): everything temporary goes below it and it is removed at the end
    import shutil
    import tempfile

    scratch = tempfile.mkdtemp(prefix="rsx-run-")
    tempfile.tempdir = scratch
    os.environ["TMPDIR"] = scratch
    try:
        return _main(a, seed)
    finally:
        shutil.rmtree(scratch, ignore_errors=True)


def _main(a, seed):
    if a.what == "replay":
        res = run_replay(a.rest[0])
        print(json.dumps(res, indent=1))
        if res["reproduced"]:
            d = json.load(open(a.rest[0]))
            print("VIOLATION property=%s replay=%s" % (d.get("property"), a.rest[0]))
            return 1
        return 0 if res["reproduced"] is False else 2
    if a.what == "selftest":
        from vlib import selftest

        return selftest.main(a.rest)
    return check(a.what.upper(), a.tier, seed, a.only, a.jobs, a.budget, a.max_wall)


if __name__ == "__main__":
    sys.exit(main())
