"""pytest plugin: install the rsx loader + shims before rope is imported (transparency gate)."""
from rsx import shims

shims.boot()
