"""Corpus K15: one skeleton per binding construct / nesting combination (C15); also reuses the
single-module skeletons of K01."""
from harness.bcommon import Skeleton
from harness.corpus_k01 import K01

EXTRA = [
    Skeleton("b01_assign_forms", {"main.py": "{0}, *{1} = [1, 2, 3]\n{2}: int = 4\n({3}, [{0}, {2}]) = (5, [6, 7])\nprint({0}, {1}, {2}, {3})\n"}),
    Skeleton("b02_param_kinds", {"main.py": "def fun({0}, /, {1}, *{2}, {3}=1, **{4}):\n    return ({0}, {1}, {2}, {3}, {4})\nprint(fun(1, 2, 3))\n"}),
    Skeleton("b03_augassign_only", {"main.py": "{0} = 1\ndef fun():\n    global {1}\n    {1} += 1\n    {2} = 0\n    {2} += {0}\n    return {2}\nprint(fun())\n"}),
    Skeleton("b04_imports", {"main.py": "import os.path as {0}, sys\nfrom os import sep as {1}, linesep\ndef fun():\n    import io as {2}\n    return {2}, {0}, {1}\nprint(len(fun()))\n"}),
    Skeleton("b05_loop_with_targets", {"main.py": "import io\ndef fun({0}):\n    for {1}, {2} in [(1, 2)]:\n        pass\n    with io.StringIO() as {3}:\n        pass\n    while ({0} := {0} - 1) > 0:\n        pass\n    return {1}, {2}, {3}, {0}\nprint(len(fun(2)))\n"}),
    Skeleton("b06_class_in_func", {"main.py": "def outer({0}):\n    class inner:\n        {1} = {0}\n        def meth(self, {2}):\n            return {2} + {0}\n    return inner().meth(1) + inner.{1}\nprint(outer(1))\n"}),
    Skeleton("b07_func_in_class_in_func", {"main.py": "{0} = 10\ndef outer():\n    {1} = 1\n    class kls:\n        {2} = 2\n        def meth(self):\n            {3} = 3\n            return {0} + {1}\n    return kls().meth()\nprint(outer())\n"}),
    Skeleton("b08_comprehensions", {"main.py": "{0} = [1, 2]\n{1} = [{2} for {2} in {0}]\n{3} = {{2}: {2} for {2} in {0}}\ndef fun():\n    return sum({2} for {2} in {0})\nprint({1}, {3}, fun())\n"}),
    Skeleton("b09_match", {"main.py": "def fun({0}):\n    match {0}:\n        case [{1}, *{2}]:\n            return {1}, {2}\n        case {'k': {3}, **{4}}:\n            return {3}, {4}\n    return None\nprint(fun([1, 2]), fun({'k': 1}))\n"}),
    Skeleton("b10_async_try", {"main.py": "import asyncio\nasync def fun({0}):\n    try:\n        {1} = {0}\n    except Exception as {2}:\n        {1} = {2}\n    finally:\n        {3} = 1\n    return {1}, {3}\nprint(asyncio.run(fun(1)))\n"}),
    Skeleton("b11_nested_defs_lines", {"main.py": "def aa({0}):\n    def bb({1}):\n        def cc({2}):\n            return {0} + {1} + {2}\n        return cc\n    return bb\n\n\nclass kk:\n    def mm(self, {3}):\n        return {3}\n    {0} = 1\nprint(aa(1)(2)(3), kk().mm(4))\n"}),
    # comment-only and blank lines where the end of a scope is decided: dedented inside the trailing
    # compound statement, at body depth right after the last statement, between nested definitions
    Skeleton("b13_comments_at_scope_ends", {"main.py": "def outer({0}):\n    {1} = 0\n    if {0}:\n        {1} = 1\n# dedented comment inside the trailing if\n        {1} += 1\n    # comment at body depth\n\nclass kk:\n    def mm(self, {2}):\n        return {2}\n        # trailing comment deeper than the body\n    # comment at class depth\n    def nn(self):\n        for {3} in [1]:\n            pass\n  # oddly indented comment\n        else:\n            {3} = 2\n        return {3}\n# module comment\nprint(outer(1), kk().mm(2), kk().nn())\n"}),
    Skeleton("b12_lambda_default", {"main.py": "{0} = 1\n{1} = lambda {2}, {3}={0}: {2} + {3}\nprint({1}(1))\n"}),
    # decorators, multi-line headers and one-line bodies: where a scope starts and ends
    Skeleton("b14_decorated_multiline_headers", {"main.py": "import functools\ndef deco({0}):\n    return {0}\n@deco\n@functools.wraps(\n    deco\n)\ndef fun({1},\n        {2}=(1,\n             2)):\n    return {1}, {2}\n@deco\nclass kk(\n        object):\n    def mm(self, {3}): return {3}\n    def nn(self,\n           {1}): return {1}\n    {2} = 1\nprint(fun(1), kk().mm(2), kk().nn(3), kk.{2})\n"}),
    # a comprehension in a class body: its first iterable is evaluated in the class scope, the rest is not
    Skeleton("b15_comprehension_in_class", {"main.py": "{0} = [3]\nclass kk:\n    {1} = [1, 2]\n    {2} = [{3} for {3} in {1}]\n    def mm(self, {3}):\n        return {3}, {0}\nprint(kk.{2}, kk().mm(1))\n"}),
    # a one-line def / class whose only body statement runs over several physical lines, followed by more code
    Skeleton("b16_oneliner_with_multiline_body", {"main.py": "def fun({0}): return [\n    {0},\n    1,\n]\n{1} = 2\ndef other({2}):\n    {3} = {2}\n    return {3}\nclass kk: {1} = (\n    3)\n{3} = 4\nprint(fun(1), other(2), kk.{1}, {1}, {3})\n"}),
]

K15 = [sk for sk in K01 if len(sk.files) == 1] + EXTRA
