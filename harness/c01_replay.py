"""Replay of C01 counterexamples on un-instrumented rope."""
import os
import shutil
from rope.base import project as rproject, codeanalyze
from rope.refactor import rename
import rope.base.exceptions as rex
from harness import c01_oracle
from harness.c02_replay import materialise


def read_all(tmp):
    out = {}
    for d, ds, fs in os.walk(tmp):
        for x in fs:
            if x.endswith(".py"):
                full = os.path.join(d, x)
                out[os.path.relpath(full, tmp)] = open(full).read()
    return out


def replay(f):
    w = f["witness"]
    if f["kind"] == "collector_splice":
        text = w["text"]
        edits = [(a, b, r) for a, b, r in w["edits"]]
        cc = codeanalyze.ChangeCollector(text)
        for i in w["order"]:
            cc.add_change(*edits[i])
        got = cc.get_changed()
        out, last = "", 0
        for a, b, r in sorted(edits, key=lambda e: (e[0], e[1])):
            out += text[last:a] + r
            last = b
        out += text[last:]
        bad = (got if got is not None else text) != out
        return dict(reproduced=bad, signature="collector:%r:%s" % (text, edits), detail="ChangeCollector(%r) with edits %s added in order %s gives %r, the splice is %r" % (text, edits, w["order"], got, out))
    files, path, off, new = w["files"], w["path"], w["offset"], w["new"]
    tmp = materialise(files)
    try:
        proj = rproject.Project(tmp, ropefolder=None)
        try:
            changes = rename.Rename(proj, proj.get_file(path), off).get_changes(new)
            proj.do(changes)
        except rex.RopeError as e:
            return dict(reproduced=False, signature="", detail="refused: %s" % e)
        except Exception as e:
            return dict(reproduced=True, signature="c01:%s:internal:%s" % (w["skeleton"], type(e).__name__), detail="Rename at %s:%d of %r raised %s: %s" % (path, off, files, type(e).__name__, e))
        finally:
            proj.close()
        after = read_all(tmp)
        verdict, detail, hint = c01_oracle.judge(files, after, path, off, w.get("entry", "main.py"))
        if verdict == "ok":
            return dict(reproduced=False, signature="", detail="rename preserved the program")
        return dict(reproduced=True, signature="c01:%s:%s:%s" % (w["skeleton"], verdict, hint), detail="renaming %s:%d to %r in %r gives %r: %s" % (path, off, new, files, after, detail))
    finally:
        shutil.rmtree(tmp, ignore_errors=True)
