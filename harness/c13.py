"""C13 — a long-lived project answers like a freshly opened one (DESIGN.md §5 C13).
Pattern C: the real Project / PyCore / _ModuleCache / _FileListCacher / FilteredResourceObserver /
ChangeIndicator run on the model file system; after every step the warm project's answers are
compared with those of a brand-new Project over the same model state."""
from rsx import shims

shims.boot()
from rsx import core, h, mfs  # noqa: E402
from rsx.core import sym_int, choose, PathAbort, Unsupported  # noqa: E402
from rsx.symstr import sym_str, tosym, mkbytes, concretize, sym_eq, SymStr  # noqa: E402
from rope.base import project as rproject, change, exceptions  # noqa: E402

PROPERTY = "C13"
INSTANCE_SECONDS = {"quick": 900, "thorough": 3600}
EXPLANATION = (
    "Symbolic pre-state over a small universe (which files/folders exist; every file holds 'NAME = 1' with a symbolic "
    "NAME); solver-chosen warm-up (which queries populate the caches first) and a solver-chosen sequence of mutations: "
    "through rope (write, create, move, remove, undo) and behind its back (content edit, file creation, removal, directly on the model "
    "file system, with the mtime advanced) followed by project.validate(). After every step the answers of the "
    "long-lived project - list of files, list of Python files, module lookup by name for every module name of the universe, a "
    "module's source (solver equality) and its defined names - must equal those of a fresh Project on the same state."
)
ASSUMPTIONS = [
    "A7: an external modification changes getmtime or getsize of the file (the model advances mtime on every write)",
    "A8/A10 as for C10; automatic_soa=False",
]
OUTSIDE = "the sqlite-backed autoimport index and the object-info database (C boundary); occurrence search and inferred attribute sets; universes larger than stated"
BOUNDS = {"quick": {"steps": 2}, "thorough": {"steps": "3 with warmed caches, 2 without"}}
STUBS = ["os/shutil/open -> rsx.mfs model file system"]
ROOT = "/rsx-mfs-root"
FILES = ["a.py", "b.py", "d/c.py"]
DIRS = ["d"]
MODS = ["a", "b", "d.c", "d"]
OPS = ["rope-write", "rope-create", "rope-move", "rope-remove", "undo", "ext-write", "ext-create", "ext-remove"]


def instances(tier):
    out = []
    for o0 in range(len(OPS)):
        for warm in range(2):
            if tier == "thorough" and warm:
                # three steps on the long-lived project with warmed caches, one instance per second operation
                for o1 in range(len(OPS)):
                    out.append(("fresh.%s.%s.w1" % (OPS[o0], OPS[o1]), dict(first=o0, second=o1, warm=1, steps=3)))
            else:
                out.append(("fresh.%s.w%d" % (OPS[o0], warm), dict(first=o0, warm=warm, steps=2)))
    return out


def answers(proj, conc=None):
    files = sorted(f.path for f in proj.get_files())
    pys = sorted(f.path for f in proj.get_python_files())
    mods = {}
    srcs = {}
    names = {}
    for m in MODS:
        r = proj.find_module(m)
        mods[m] = None if r is None else r.path
    for p in pys:
        try:
            pm = proj.get_pymodule(proj.get_file(p))
            srcs[p] = pm.source_code
            names[p] = sorted(k for k in pm.get_attributes())
        except exceptions.ModuleSyntaxError:
            srcs[p] = "<syntax error>"
            names[p] = []
    pkgs = {}
    for d_ in ("d",):
        r = proj.find_module(d_)
        if r is not None and r.is_folder():
            pkgs[d_] = sorted(proj.get_pymodule(r).get_attributes())
    return dict(files=files, pys=pys, mods=mods, srcs=srcs, names=names, pkgs=pkgs)


def make_run(p):
    def run():
        E = core.ENGINE
        fs = mfs.MFS(ROOT, FILES, DIRS)
        fs.init_symbolic(content_len=1, content_ranges=((97, 104),))
        for f in FILES:
            fs.content[f] = mkbytes(tuple(fs.content[f].bs if hasattr(fs.content[f], "bs") else fs.content[f]) + tuple(b" = 1\n"))
        undo_shims = mfs.install(fs)
        try:
            proj = rproject.Project(ROOT, ropefolder=None, automatic_soa=False)
            pre_snap = fs.snapshot()
            trace = []
            if p["warm"]:
                answers(proj)
            for step in range(p["steps"]):
                code = p["first"] if step == 0 else p["second"] if (step == 1 and p.get("second") is not None) else choose("op%d" % step, len(OPS))
                op = OPS[code]
                f = FILES[choose("t%d" % step, len(FILES))]
                try:
                    if op == "rope-write":
                        new = sym_str("new%d" % step, 1, ranges=((97, 104),))
                        if not fs.is_(f, mfs.FILE):
                            raise PathAbort()
                        proj.do(change.ChangeContents(proj.get_file(f), tosym(new) + " = 2\n"))
                        trace.append([op, f, new])
                    elif op == "rope-create":
                        if not fs.is_(f, mfs.ABSENT) or not fs.is_(fs.parent(f), mfs.DIR):
                            raise PathAbort()
                        proj.do(change.CreateResource(proj.get_file(f)))
                        trace.append([op, f])
                    elif op == "rope-move":
                        g = FILES[choose("u%d" % step, len(FILES))]
                        if f == g or not fs.is_(f, mfs.FILE) or not fs.is_(g, mfs.ABSENT) or not fs.is_(fs.parent(g), mfs.DIR):
                            raise PathAbort()
                        proj.do(change.MoveResource(proj.get_file(f), g, exact=True))
                        trace.append([op, f, g])
                    elif op == "rope-remove":
                        if not fs.is_(f, mfs.FILE):
                            raise PathAbort()
                        proj.do(change.RemoveResource(proj.get_file(f)))
                        trace.append([op, f])
                    elif op == "undo":
                        if not proj.history.undo_list or isinstance(proj.history.undo_list[-1], change.RemoveResource):
                            raise PathAbort()
                        proj.history.undo()
                        trace.append([op])
                    elif op == "ext-write":
                        if not fs.is_(f, mfs.FILE):
                            raise PathAbort()
                        new = sym_str("new%d" % step, 1, ranges=((97, 104),))
                        fs.op_set_content(f, tosym(tosym(new) + " = 3\n").encode("utf-8"))
                        proj.validate(proj.root)
                        trace.append([op, f, new])
                    elif op == "ext-create":
                        if not fs.is_(f, mfs.ABSENT) or not fs.is_(fs.parent(f), mfs.DIR):
                            raise PathAbort()
                        fs.kind[f] = mfs.FILE
                        fs._touch_parent(f)
                        fs.op_set_content(f, b"z = 9\n")
                        proj.validate(proj.root)
                        trace.append([op, f])
                    else:
                        if not fs.is_(f, mfs.FILE):
                            raise PathAbort()
                        fs.kind[f] = mfs.ABSENT
                        fs._touch_parent(f)
                        proj.validate(proj.root)
                        trace.append([op, f])
                except (exceptions.RopeError, OSError):
                    # refused, or not performable any more (e.g. undo of a creation whose file an
                    # external process has removed meanwhile raises FileNotFoundError on the real
                    # file system too): the sequence is not one the property speaks about
                    raise PathAbort("operation refused or failed")
                if choose("q%d" % step, 2) or step == p["steps"] - 1:
                    warm = answers(proj)
                    fresh = answers(rproject.Project(ROOT, ropefolder=None, automatic_soa=False))
                    for key in ("files", "pys", "mods", "pkgs"):
                        if warm[key] != fresh[key]:
                            m = E.fresh_model()
                            return h.fail("stale_" + key, "after %s the long-lived project answers %s, a fresh one %s" % (concretize(trace, m), warm[key], fresh[key]),
                                          model=m, trace=trace, warm=p["warm"], pre_kinds={q: fs_kind for q, fs_kind in pre_snap[0].items()}, pre_contents={q: c_ for q, c_ in pre_snap[1].items() if q in FILES})
                    for pth in warm["pys"]:
                        a, b = warm["srcs"][pth], fresh["srcs"][pth]
                        eq = sym_eq(a, b) if len(tosym(a)) == len(tosym(b)) else False
                        f_ = h.require(eq, "stale_source", "the long-lived project returns an outdated source for %s" % pth, trace=trace, warm=p["warm"], path=pth, stale=a, current=b, pre_kinds={q: fs_kind for q, fs_kind in pre_snap[0].items()}, pre_contents={q: c_ for q, c_ in pre_snap[1].items() if q in FILES})
                        if f_:
                            return f_
                        m = E.fresh_model()
                        if concretize(warm["names"][pth], m) != concretize(fresh["names"][pth], m):
                            return h.fail("stale_names", "defined names of %s differ" % pth, model=m, trace=trace, warm=p["warm"], path=pth, pre_kinds={q: fs_kind for q, fs_kind in pre_snap[0].items()}, pre_contents={q: c_ for q, c_ in pre_snap[1].items() if q in FILES})
            return h.sample(trace=trace, warm=p["warm"])
        finally:
            undo_shims()

    return run


def _cst(fs, m):
    st = fs.concrete(m)
    return {p_: (None if v is None else v.decode("latin-1")) for p_, v in st.items()}


def run_instance(name, params, seconds):
    return h.explore_instance(make_run(params), seconds)
