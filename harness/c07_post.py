"""C07 idempotence check (plain; uses whichever rope is loaded in the process)."""
import shutil
from harness import refops
from harness.c02_replay import materialise


def idempotent(before, after, op):
    """apply the same action to the result once more: nothing may change (runs the rope that is
    loaded in this process, on concrete text)"""
    from rope.base import project as rproject

    tmp = materialise(after)
    try:
        proj = rproject.Project(tmp, ropefolder=None, **(op.get("prefs") or {}))
        try:
            ch = refops.perform(proj, op)
            if ch is None:
                return "ok", ""
            desc = ch.get_description()
        finally:
            proj.close()
        return "not_idempotent", "a second application changes the module again: %s" % desc[:300]
    except Exception as e:
        return "second_application_raised", "%s: %s" % (type(e).__name__, e)
    finally:
        shutil.rmtree(tmp, ignore_errors=True)
