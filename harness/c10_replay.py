"""Replay of C10 counterexamples on un-instrumented rope with the real file system."""
import os
import shutil
import tempfile
from rope.base import project as rproject, change, exceptions, taskhandle
from rope.base.fscommands import FileSystemCommands


class Injected(OSError):
    pass


class FailFS:
    """real FileSystemCommands; the n-th mutating call raises before taking effect"""

    def __init__(self):
        self.real = FileSystemCommands()
        self.n = 0
        self.fail_at = None

    def _tick(self):
        self.n += 1
        if self.fail_at is not None and self.n == self.fail_at:
            raise Injected(5, "injected")

    def create_file(self, path):
        self._tick()
        self.real.create_file(path)

    def create_folder(self, path):
        self._tick()
        self.real.create_folder(path)

    def move(self, a, b):
        self._tick()
        self.real.move(a, b)

    def remove(self, path):
        self._tick()
        self.real.remove(path)

    def write(self, path, data):
        self._tick()
        self.real.write(path, data)

    def read(self, path):
        return self.real.read(path)


def snap(root):
    out = {}
    for d, ds, fs in os.walk(root):
        for x in ds:
            out[os.path.relpath(os.path.join(d, x), root)] = None
        for x in fs:
            with open(os.path.join(d, x), "rb") as fh:
                out[os.path.relpath(os.path.join(d, x), root)] = fh.read()
    return out


def build(proj, ops):
    cs = change.ChangeSet("composite")
    for op in ops:
        if op[0] == "edit":
            cs.add_change(change.ChangeContents(proj.get_file(op[1]), op[2]))
        elif op[0] == "mkfile":
            cs.add_change(change.CreateResource(proj.get_file(op[1])))
        elif op[0] == "mkdir":
            cs.add_change(change.CreateResource(proj.get_folder(op[1])))
        elif op[0] == "move":
            cs.add_change(change.MoveResource(proj.get_file(op[1]), op[2], exact=True))
        elif op[0] == "remove":
            cs.add_change(change.RemoveResource(proj.get_file(op[1])))
    return cs


class Stopper:
    def __init__(self, handle, n):
        self.handle, self.n, self.calls = handle, n, 0

    def __call__(self):
        self.calls += 1
        if self.calls == self.n:
            self.handle.stop()


REMOVED = []
_orig_remove_do = change.RemoveResource.do


def _remove_do(self, *a, **kw):
    # replay-side bookkeeping only: was a RemoveResource performed before the failure?
    REMOVED.append(self.resource.path)
    return _orig_remove_do(self, *a, **kw)


change.RemoveResource.do = _remove_do


def signature(w, what, exc):
    ops = [o[0] for o in w["ops"]]
    return "%s:%s:%s:k=%s:removal_done=%s:%s" % (what, w["mode"], "+".join(ops), w["k"], bool(REMOVED), type(exc).__name__)


def replay(f):
    w = f["witness"]
    tmp = tempfile.mkdtemp(prefix="c10replay")
    try:
        del REMOVED[:]
        mode = w["mode"]
        start = w["pre0"] if mode.startswith("undo") else w["pre"]
        for p, v in sorted(start.items()):
            full = os.path.join(tmp, p)
            if v is None:
                os.makedirs(full, exist_ok=True)
        for p, v in sorted(start.items()):
            if v is not None:
                with open(os.path.join(tmp, p), "wb") as fh:
                    fh.write(v.encode("latin-1"))
        mode = w["mode"]
        fsc = FailFS()
        proj = rproject.Project(tmp, fscommands=fsc, ropefolder=None, automatic_soa=False)
        # same history shape as the harness: one redoable change before the call under test
        proj.do(change.CreateResource(proj.get_file("zz_redo.py")))
        proj.history.undo()
        fsc.n = 0
        cs = build(proj, w["ops"])
        th = taskhandle.DEFAULT_TASK_HANDLE
        if mode.endswith("stop"):
            th = taskhandle.TaskHandle("t")
        if mode.startswith("do"):
            call = lambda: proj.do(cs, task_handle=th)  # noqa: E731
        else:
            proj.do(cs)  # fault-free, from the recorded original state
            call = lambda: proj.history.undo(task_handle=th)  # noqa: E731
        before = snap(tmp)
        undo_before = list(proj.history.undo_list)
        redo_before = list(proj.history.redo_list)
        fsc.n = 0
        if mode.endswith("fault"):
            fsc.fail_at = w["k"]
        else:
            th.add_observer(Stopper(th, w["k"]))
        if mode.startswith("do"):
            del REMOVED[:]  # (undo mode: removals performed by the forward run count)
        try:
            call()
            return dict(reproduced=False, signature="", detail="the call did not fail")
        except Exception as e:
            after = snap(tmp)
            if after != before:
                return dict(reproduced=True, signature=signature(w, "not_restored", e), detail="ops=%s %s k=%s raised %s; tree before %s after %s" % (w["ops"], mode, w["k"], type(e).__name__, before, after))
            if list(proj.history.undo_list) != undo_before or list(proj.history.redo_list) != redo_before:
                return dict(reproduced=True, signature=signature(w, "history_changed", e), detail="undo or redo list changed by the failed call")
            if not isinstance(e, (Injected, exceptions.RopeError)):
                return dict(reproduced=True, signature=signature(w, "error_masked", e), detail="ops=%s %s k=%s reported %s: %s" % (w["ops"], mode, w["k"], type(e).__name__, e))
            return dict(reproduced=False, signature="", detail="restored")
    finally:
        shutil.rmtree(tmp, ignore_errors=True)
