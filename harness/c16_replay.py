"""Replay of C16 counterexamples on un-instrumented rope with the real file system."""
import os
import shutil
import tempfile
from rope.base import project as rproject, change

HEADERS = {"none": (None, ""), "utf8": ("utf-8", "# -*- coding: utf-8 -*-\n"), "latin1": ("latin-1", "# coding: latin-1\n"), "ascii": ("ascii", "# coding=ascii\n"),
           "latin1l2": ("latin-1", "#!/usr/bin/env python\n# vim: set fileencoding=latin-1 :\n"), "latin1l2b": ("latin-1", "\n# coding: latin-1\n"),
           "latin1ws": ("latin-1", "\x00# coding: latin-1\n"), "latin1l2ws": ("latin-1", "#!/usr/bin/env python\n\x00# coding: latin-1\n")}
NLS = {"lf": "\n", "crlf": "\r\n", "cr": "\r"}


def replay(f):
    w = f["witness"]
    mode, hd, nlname = f["instance"].split(".")[:3]
    enc, header = HEADERS[hd]
    header = header.replace("\x00", w.get("ws", " "))  # the symbolic blank before the coding comment
    nl = NLS[nlname]
    body = w.get("body", "")
    logical = header + body
    data = logical.replace("\n", nl).encode(enc or "utf-8")
    tmp = tempfile.mkdtemp(prefix="c16replay")
    try:
        path = os.path.join(tmp, "m.py")
        with open(path, "wb") as fh:
            fh.write(data)
        proj = rproject.Project(tmp, ropefolder=None)
        fl = proj.get_file("m.py")
        content = fl.read()
        if mode == "rewrite":
            proj.do(change.ChangeContents(fl, content))
            after = open(path, "rb").read()
            proj.close()
            return dict(reproduced=after != data, signature="rewrite:%s:%s:%r" % (hd, nlname, data), detail="file bytes %r became %r after writing back the text that was read" % (data, after))
        a, b, ins = w["a"], w["b"], w.get("ins", "")
        new_content = content[:a] + ins + content[b:]
        proj.do(change.ChangeContents(fl, new_content))
        after = open(path, "rb").read()
        conv = nl if "\n" in logical else "\n"
        exp = (logical[:a] + ins + logical[b:]).replace("\n", conv).encode(enc or "utf-8")
        back = fl.read()
        proj.close()
        if after != exp:
            return dict(reproduced=True, signature="edit:%s:%s:%r[%d:%d]=%r" % (hd, nlname, data, a, b, ins), detail="file %r, replacing text[%d:%d] by %r wrote %r, expected %r" % (data, a, b, ins, after, exp))
        if back != new_content:
            return dict(reproduced=True, signature="readback:%s:%s:%r" % (hd, nlname, data), detail="wrote %r, read back %r" % (new_content, back))
        return dict(reproduced=False, signature="", detail="bytes as expected")
    finally:
        shutil.rmtree(tmp, ignore_errors=True)
