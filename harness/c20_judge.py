"""C20 judge (plain Python)."""
from harness import c20_oracle
from oracles.pybind import Program


def judge(full, shown, off, got, defloc, later_locals):
    """full: the valid module; shown: what rope saw (maybe truncated at the cursor); got: proposal
    names or None (refused); defloc: [path, line] | 'refused' | None"""
    problems = []
    dotted, prefix = c20_oracle.context(shown, off)
    inside = c20_oracle.in_string_or_comment(full, off)
    if got is not None:
        for n in got:
            if not n.startswith(prefix):
                problems.append("prefix: proposal %r does not extend %r" % (n, prefix))
        if not dotted and not inside and inside is not None:
            try:
                vis, kind = c20_oracle.visible(full, off)
            except SyntaxError:
                vis = None
            line_text = full[full.rfind("\n", 0, off) + 1: (full.find("\n", off) if full.find("\n", off) != -1 else len(full))]
            stripped = line_text.lstrip()
            header = stripped.startswith(("def ", "class ", "async def ", "@"))
            import_line = stripped.startswith(("import ", "from "))
            if vis is not None and not import_line and not header:  # header lines complete new names / keywords: prefix + no-crash only
                import ast as _ast

                tree = _ast.parse(full)
                params = {a.arg for n_ in _ast.walk(tree) if isinstance(n_, (_ast.FunctionDef, _ast.AsyncFunctionDef, _ast.Lambda)) for a in n_.args.posonlyargs + n_.args.args + n_.args.kwonlyargs}
                allowed = set(vis)
                if header:
                    # on a def/class header line the parameters of that def are referable too
                    eol = full.find("\n", off)
                    inner, _k = c20_oracle.visible(full, (eol if eol != -1 else len(full)) + 1 + len(line_text) - len(stripped) + 4)
                    allowed |= set(inner)
                for n in got:
                    stem = n[:-1] if n.endswith("=") else n
                    if n.endswith("=") and stem in params:
                        continue  # keyword-argument proposal inside a call
                    if stem not in allowed and not c20_oracle.ok_name(stem):
                        problems.append("unsound: proposal %r is not visible at offset %d" % (n, off))
                line = full.count("\n", 0, off) + 1
                for n, (bl, sk) in ([] if header else vis.items()):
                    if prefix and n.startswith(prefix) and n != prefix and bl is not None and bl < line and n not in got:
                        problems.append("incomplete[%s]: visible name %r (bound at line %d) with prefix %r is not offered" % (sk, n, bl, prefix))
    if defloc not in (None, "refused") and not inside:
        prog = Program({"main.py": full})
        bind = prog.bindings()
        # the identifier token containing the offset
        tok = None
        for (p, o), v in bind.items():
            if o <= off < o + len(v[1]):
                tok = (o, v)
        if tok is not None:
            key = tok[1][0]
            if isinstance(key, tuple) and len(key) == 2 and isinstance(key[0], tuple):
                lines = sorted({full.count("\n", 0, o2) + 1 for (p2, o2), v2 in bind.items() if v2[0] == key and v2[2] in ("bind", "param", "def", "import-as", "import-from")})
                if defloc[1] is not None and lines and defloc[1] not in lines:
                    problems.append("definition: token %r at %d is bound at lines %s, rope says line %s" % (tok[1][1], off, lines, defloc[1]))
    return problems
