"""Replay of C14 counterexamples on un-instrumented rope; the oracle is the real tokenizer / ast."""
import warnings

warnings.simplefilter("ignore")
from oracles import toklex
from rope.base import simplify, codeanalyze
from rope.base.worder import _RealFinder


def _real_code_ok(text, spans):
    rc = simplify.real_code(text)
    if len(rc) != len(text):
        return "len(real_code)=%d != len(text)=%d" % (len(rc), len(text))
    inside = {}
    for kind, a, b in spans:
        for i in range(a, b):
            inside[i] = kind
    for i, (t, r) in enumerate(zip(text, rc)):
        if i in inside:
            continue
        if not (r == t or (t in "\t;\n\\" and r in " \n")):
            return "real_code[%d]=%r for source char %r" % (i, r, t)
    return None


def _norm_start(lines, r):
    a, b = r
    while a < b and lines.get_line(a).strip() == "\\":
        a += 1
    return (a, b)


def replay(f):
    k = f["kind"]
    w = f["witness"]
    if k in ("regions", "real_code_len", "real_code_chars"):
        text = w["text"]
        try:
            spans = toklex.string_comment_spans(text)
            compile(text, "<w>", "exec")
        except (toklex.TokInvalid, SyntaxError, ValueError) as e:
            return dict(reproduced=False, signature="", detail="witness is not valid source: %s" % e)
        got = [(a, b) for a, b, g in simplify.ignored_regions(text)]
        exp = [(a, b) for _, a, b in spans]
        if got != exp:
            return dict(reproduced=True, signature="regions:%r" % text, detail="ignored_regions(%r)=%s but tokenizer string/comment tokens=%s" % (text, got, exp))
        msg = _real_code_ok(text, spans)
        if msg:
            return dict(reproduced=True, signature="real_code:%r" % text, detail="real_code(%r): %s" % (text, msg))
        return dict(reproduced=False, signature="", detail="rope agrees with tokenize on %r" % text)
    if k in ("ffield_hidden", "ffield_word", "literal_visible"):
        import io
        import tokenize
        from rope.base import worder

        text = w["text"]
        try:
            compile(text, "<w>", "exec")
            toks = list(tokenize.generate_tokens(io.StringIO(text).readline))
        except (SyntaxError, tokenize.TokenError, ValueError) as e:
            return dict(reproduced=False, signature="", detail="witness is not valid source: %s" % e)
        starts = [0]
        for i, ch in enumerate(text):
            if ch == "\n":
                starts.append(i + 1)
        rc = simplify.real_code(text)
        wd = worder.Worder(text)
        names = [(starts[t.start[0] - 1] + t.start[1], t.string) for t in toks if t.type == tokenize.NAME and t.string != "x"]
        for a, nm in names:  # NAME tokens the tokenizer sees (inside replacement fields)
            if rc[a:a + len(nm)] != nm:
                return dict(reproduced=True, signature="ffield:hidden:%r" % text, detail="tokenize reports NAME %r at %d of %r, real_code shows %r there" % (nm, a, text, rc[a:a + len(nm)]))
            for o in range(a, a + len(nm)):
                if wd.get_word_at(o) != nm:
                    return dict(reproduced=True, signature="ffield:word:%r" % text, detail="get_word_at(%d) on %r = %r, tokenize says NAME %r" % (o, text, wd.get_word_at(o), nm))
        if not names:
            spans = toklex.string_comment_spans(text)
            for _kind, a, b in spans:
                inner = rc[a:b]
                if any(ch.isalnum() for ch in inner[len(inner) - len(inner.lstrip("rRbBuUfF")):].strip("'\"")):
                    return dict(reproduced=True, signature="ffield:visible:%r" % text, detail="real_code(%r) shows literal characters: %r" % (text, inner))
        return dict(reproduced=False, signature="", detail="rope agrees with tokenize on %r" % text)
    if k.startswith("lines_"):
        code = w["code"]
        sla = codeanalyze.SourceLinesAdapter(code)
        n = code.count("\n") + 1
        problems = []
        if sla.length() != n:
            problems.append("length()=%d expected %d" % (sla.length(), n))
        else:
            for ln in range(1, n + 1):
                if sla.get_line_number(sla.get_line_start(ln)) != ln:
                    problems.append("get_line_number(get_line_start(%d)) != %d" % (ln, ln))
                if sla.get_line(ln) != code.split("\n")[ln - 1]:
                    problems.append("get_line(%d)" % ln)
            for off in range(len(code) + 1):
                kk = sla.get_line_number(off)
                if not (sla.get_line_start(kk) <= off <= sla.get_line_end(kk)):
                    problems.append("offset %d not in its line" % off)
        return dict(reproduced=bool(problems), signature="lines:%r" % code, detail="; ".join(problems[:3]) + " on %r" % code)
    if k.startswith("logical"):
        text = w["text"]
        if not text.endswith("\n"):
            text += "\n"
        try:
            exp = toklex.logical_lines(text)
            compile(text, "<w>", "exec")
        except (toklex.TokInvalid, SyntaxError, ValueError) as e:
            return dict(reproduced=False, signature="", detail="witness is not valid source: %s" % e)
        lines = codeanalyze.SourceLinesAdapter(text[:-1])
        got = list(codeanalyze.custom_generator(lines))
        got = [r for r in got if any(a <= r[1] and r[0] <= b for a, b in exp)]
        got = [_norm_start(lines, r) for r in got]
        if got != exp:
            return dict(reproduced=True, signature="logical:%r" % text, detail="custom_generator(%r)=%s tokenizer logical lines=%s" % (text, got, exp))
        finder = codeanalyze.CachingLogicalLineFinder(lines)
        for a, b in exp:
            for n in range(a, b + 1):
                if _norm_start(lines, tuple(finder.logical_line_in(n))) != (a, b):
                    return dict(reproduced=True, signature="logical_in:%r" % text, detail="logical_line_in(%d)=%s expected %s on %r" % (n, finder.logical_line_in(n), (a, b), text))
        return dict(reproduced=False, signature="", detail="agrees")
    if k.startswith("word"):
        code, o = w["code"], w["off"]
        f_ = _RealFinder(code, code)
        s, e = f_.get_word_range(o)

        def idc(c):
            return c.isalnum() or c == "_"

        s0 = o
        while s0 > 0 and idc(code[s0 - 1]):
            s0 -= 1
        e0 = o + 1
        while e0 < len(code) and idc(code[e0]):
            e0 += 1
        bad = (s, e) != (s0, e0) or f_.get_word_at(o) != code[s0:e0]
        return dict(reproduced=bad, signature="word:%r@%d" % (code, o), detail="get_word_range(%d) on %r = %s expected %s" % (o, code, (s, e), (s0, e0)))
    if k == "primary_range":
        from harness.c14_oracle import expected_primary

        src, off = w["src"], w["off"]
        finder = _RealFinder(simplify.real_code(src), src)
        got = tuple(finder.get_primary_range(off))
        exp = expected_primary(src, off)
        return dict(reproduced=got != exp, signature="primary:%r@%d" % (src, off), detail="get_primary_range(%d) on %r = %s expected %s" % (off, src, got, exp))
    return dict(reproduced=None, signature="", detail="unknown kind %s" % k)
