"""Reference structural matcher for C19 (plain Python): where does an expression pattern with
${wildcards} match in a module, with 'equal wildcards bound to equal code'?"""
import ast
import re


def _pattern_ast(pattern):
    names = re.findall(r"\$\{(\w+)\}", pattern)
    src = re.sub(r"\$\{(\w+)\}", lambda m: "__w_%s__" % m.group(1), pattern)
    return ast.parse(src, mode="eval").body, set(names)


def _unify(p, n, env):
    if isinstance(p, ast.Name) and p.id.startswith("__w_") and p.id.endswith("__"):
        w = p.id[4:-2]
        if not isinstance(n, ast.expr):
            return False
        d = ast.dump(n)
        if w in env:
            return env[w][0] == d
        env[w] = (d, n)
        return True
    if type(p) is not type(n):
        return False
    for (f1, v1), (f2, v2) in zip(ast.iter_fields(p), ast.iter_fields(n)):
        if f1 == "ctx":
            continue
        if isinstance(v1, ast.AST):
            if not isinstance(v2, ast.AST) or not _unify(v1, v2, env):
                return False
        elif isinstance(v1, list):
            if not isinstance(v2, list) or len(v1) != len(v2):
                return False
            for a, b in zip(v1, v2):
                if isinstance(a, ast.AST):
                    if not _unify(a, b, env):
                        return False
                elif a != b:
                    return False
        elif v1 != v2:
            return False
    return True


def reference_regions(src, pattern, start=0, end=None):
    """[(start, end)] the finder must report: expression or statement pattern, as rope classifies it"""
    if is_statement_pattern(pattern):
        return statement_matches(src, pattern, start, end)
    return [(x, y) for x, y, _env in matches(src, pattern, start, end)]


def matches(src, pattern, start=0, end=None):
    """[(start, end, {wildcard: source text})] of every expression node matching the pattern whose
    extent lies inside [start, end)"""
    end = len(src) if end is None else end
    pat, names = _pattern_ast(pattern)
    tree = ast.parse(src)
    starts = [0]
    for i, ch in enumerate(src):
        if ch == "\n":
            starts.append(i + 1)
    out = []
    for n in ast.walk(tree):
        if isinstance(n, ast.expr) and not isinstance(getattr(n, "ctx", None), (ast.Store, ast.Del)):
            env = {}
            if _unify(pat, n, env):
                a = starts[n.lineno - 1] + n.col_offset
                b = starts[n.end_lineno - 1] + n.end_col_offset
                if start <= a and b <= end:
                    out.append((a, b, {w: ast.get_source_segment(src, v[1]) for w, v in env.items()}))
    return sorted(out)


def is_statement_pattern(pattern):
    """rope treats a pattern as an expression pattern when it parses to ONE expression statement"""
    src = re.sub(r"\$\{(\w+)\}", lambda m: "__w_%s__" % m.group(1), pattern)
    body = ast.parse(src).body
    return not (len(body) == 1 and isinstance(body[0], ast.Expr))


def _stmt_lists(tree):
    for n in ast.walk(tree):
        for f in ("body", "orelse", "finalbody"):
            v = getattr(n, f, None)
            if isinstance(v, list) and v and isinstance(v[0], ast.stmt):
                yield v


def _unify_any(p, n, env):
    """_unify for statements: a wildcard may also stand where a name is stored"""
    if isinstance(p, ast.Name) and p.id.startswith("__w_") and p.id.endswith("__"):
        w = p.id[4:-2]
        if not isinstance(n, ast.expr):
            return False
        d = ast.dump(n) if not isinstance(n, ast.Name) else "Name:" + n.id  # the same name read or written
        if w in env:
            return env[w][0] == d
        env[w] = (d, n)
        return True
    if type(p) is not type(n):
        return False
    for (f1, v1), (f2, v2) in zip(ast.iter_fields(p), ast.iter_fields(n)):
        if f1 in ("ctx", "type_comment"):
            continue
        if isinstance(v1, ast.AST):
            if not isinstance(v2, ast.AST) or not _unify_any(v1, v2, env):
                return False
        elif isinstance(v1, list):
            if not isinstance(v2, list) or len(v1) != len(v2):
                return False
            for a, b in zip(v1, v2):
                if isinstance(a, ast.AST):
                    if not _unify_any(a, b, env):
                        return False
                elif a != b:
                    return False
        elif v1 != v2:
            return False
    return True


def statement_matches(src, pattern, start=0, end=None):
    """[(start, end)] of every run of consecutive statements (in any statement list: bodies, else
    and finally blocks, handlers) that matches the statement pattern, inside [start, end)"""
    end = len(src) if end is None else end
    psrc = re.sub(r"\$\{(\w+)\}", lambda m: "__w_%s__" % m.group(1), pattern)
    pats = ast.parse(psrc).body
    tree = ast.parse(src)
    starts = [0]
    for i, ch in enumerate(src):
        if ch == "\n":
            starts.append(i + 1)
    out = []
    for stmts in _stmt_lists(tree):
        for i in range(0, len(stmts) - len(pats) + 1):
            env = {}
            if all(_unify_any(p, n, env) for p, n in zip(pats, stmts[i:i + len(pats)])):
                a = starts[stmts[i].lineno - 1] + stmts[i].col_offset
                last = stmts[i + len(pats) - 1]
                b = starts[last.end_lineno - 1] + last.end_col_offset
                if start <= a and b <= end:
                    out.append((a, b))
    return sorted(set(out))


def unreplaced(before, after, pattern, goal):
    """'replaces EACH match': when the goal is not itself an instance of the pattern, no instance may be
    left after the restructuring (the number of instances before tells how many had to go)"""
    dummy = re.sub(r"\$\{(\w+)\}", lambda m: "zq_%s" % m.group(1), goal)
    try:
        if reference_regions(dummy + "\n", pattern):
            return "ok", ""  # e.g. a commuted goal: rewritten code matches again
        had = reference_regions(before, pattern)
        left = reference_regions(after, pattern)
    except SyntaxError:
        return "ok", ""
    if had and left:
        return "match_not_replaced", "%d of %d instances of %r are still there after restructuring to %r: %r" % (len(left), len(had), pattern, goal, after)
    return "ok", ""
