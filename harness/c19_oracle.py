"""Reference structural matcher for C19 (plain Python): where does an expression pattern with
${wildcards} match in a module, with 'equal wildcards bound to equal code'?"""
import ast
import re


def _pattern_ast(pattern):
    names = re.findall(r"\$\{(\w+)\}", pattern)
    src = re.sub(r"\$\{(\w+)\}", lambda m: "__w_%s__" % m.group(1), pattern)
    return ast.parse(src, mode="eval").body, set(names)


def _unify(p, n, env):
    if isinstance(p, ast.Name) and p.id.startswith("__w_") and p.id.endswith("__"):
        w = p.id[4:-2]
        if not isinstance(n, ast.expr):
            return False
        d = ast.dump(n)
        if w in env:
            return env[w][0] == d
        env[w] = (d, n)
        return True
    if type(p) is not type(n):
        return False
    for (f1, v1), (f2, v2) in zip(ast.iter_fields(p), ast.iter_fields(n)):
        if f1 == "ctx":
            continue
        if isinstance(v1, ast.AST):
            if not isinstance(v2, ast.AST) or not _unify(v1, v2, env):
                return False
        elif isinstance(v1, list):
            if not isinstance(v2, list) or len(v1) != len(v2):
                return False
            for a, b in zip(v1, v2):
                if isinstance(a, ast.AST):
                    if not _unify(a, b, env):
                        return False
                elif a != b:
                    return False
        elif v1 != v2:
            return False
    return True


def matches(src, pattern, start=0, end=None):
    """[(start, end, {wildcard: source text})] of every expression node matching the pattern whose
    extent lies inside [start, end)"""
    end = len(src) if end is None else end
    pat, names = _pattern_ast(pattern)
    tree = ast.parse(src)
    starts = [0]
    for i, ch in enumerate(src):
        if ch == "\n":
            starts.append(i + 1)
    out = []
    for n in ast.walk(tree):
        if isinstance(n, ast.expr) and not isinstance(getattr(n, "ctx", None), (ast.Store, ast.Del)):
            env = {}
            if _unify(pat, n, env):
                a = starts[n.lineno - 1] + n.col_offset
                b = starts[n.end_lineno - 1] + n.end_col_offset
                if start <= a and b <= end:
                    out.append((a, b, {w: ast.get_source_segment(src, v[1]) for w, v in env.items()}))
    return sorted(out)
