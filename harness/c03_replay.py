"""Replay of C03 counterexamples; adds root-cause tags computed from the concrete program."""
import ast
from harness.bref_replay import replay_with


def _offsets(src):
    starts = [0]
    for i, ch in enumerate(src):
        if ch == "\n":
            starts.append(i + 1)
    return starts


def _span(starts, n):
    return starts[n.lineno - 1] + n.col_offset, starts[n.end_lineno - 1] + n.end_col_offset


def tags_of(files, op):
    src = files[op["path"]]
    a, b = op["start"], op["end"]
    tree = ast.parse(src)
    starts = _offsets(src)
    tags = set()
    region = src[a:b]
    try:
        rnames = {n.id for n in ast.walk(ast.parse(region.strip(), mode="eval")) if isinstance(n, ast.Name)}
        is_expr = True
    except SyntaxError:
        rnames = set()
        is_expr = False
    inside = lambda n: hasattr(n, "lineno") and _span(starts, n)[0] <= a and b <= _span(starts, n)[1]  # noqa: E731
    funcs = [n for n in ast.walk(tree) if isinstance(n, (ast.FunctionDef, ast.AsyncFunctionDef)) and inside(n)]
    if is_expr and op.get("similar") and region.strip().isidentifier():
        tags.add("similar-on-a-bare-name")
    if is_expr and op.get("global_") and funcs:
        fn = funcs[-1]
        local = {x.arg for x in fn.args.posonlyargs + fn.args.args + fn.args.kwonlyargs}
        local |= {n.id for n in ast.walk(fn) if isinstance(n, ast.Name) and isinstance(n.ctx, ast.Store)}
        if rnames & local:
            tags.add("global-extraction-reads-function-local")
    if is_expr and op.get("similar") and op["api"] == "extract_variable" and funcs and not region.strip().isidentifier():
        # the value is computed once, in front of the first occurrence; a later equal-looking
        # occurrence whose operands have been re-bound meanwhile meant something else
        fn = funcs[-1]
        want = ast.dump(ast.parse(region.strip(), mode="eval").body)
        same = [n for n in ast.walk(fn) if isinstance(n, ast.expr) and not isinstance(getattr(n, "ctx", None), (ast.Store, ast.Del)) and ast.dump(n) == want]
        stored = {n.id for n in ast.walk(fn) if isinstance(n, ast.Name) and isinstance(n.ctx, ast.Store)}
        if len(same) > 1 and rnames & stored:
            tags.add("similar-occurrences-with-rebound-operands-share-one-value")
    if is_expr and op["api"] == "extract_variable":
        # the new assignment is placed in front of the statement holding the region (or the first similar
        # occurrence): when that 'statement' is an elif / else clause the if-chain is cut in two
        def chain_clauses(node, first=True):
            out = []
            if not first:
                out.append(node.test)
            if len(node.orelse) == 1 and isinstance(node.orelse[0], ast.If) and node.orelse[0].col_offset == node.col_offset:
                out += chain_clauses(node.orelse[0], False)
            return out

        regions = [(a, b)]
        if op.get("similar"):
            want = ast.dump(ast.parse(region.strip(), mode="eval").body)
            regions += [_span(starts, n) for n in ast.walk(tree) if isinstance(n, ast.expr) and not isinstance(getattr(n, "ctx", None), (ast.Store, ast.Del)) and ast.dump(n) == want]
        for n in ast.walk(tree):
            if isinstance(n, ast.If):
                for test in chain_clauses(n):
                    ta, tb = _span(starts, test)
                    if any(ta <= ra and rb <= tb for ra, rb in regions):
                        tags.add("elif-condition-extracted-as-variable")
    if is_expr:
        for n in ast.walk(tree):
            if isinstance(n, (ast.ListComp, ast.SetComp, ast.DictComp, ast.GeneratorExp)) and inside(n) and _span(starts, n) != (a, b):
                bound = {x.id for g in n.generators for x in ast.walk(g.target) if isinstance(x, ast.Name)}
                if rnames & bound:
                    tags.add("region-reads-a-comprehension-variable")
            if isinstance(n, ast.Lambda) and inside(n.body):
                bound = {x.arg for x in n.args.posonlyargs + n.args.args + n.args.kwonlyargs}
                if rnames & bound:
                    tags.add("region-reads-a-lambda-parameter")
            if isinstance(n, ast.While) and inside(n.test) and op["api"] == "extract_variable":
                written = {x.id for st in n.body for x in ast.walk(st) if isinstance(x, ast.Name) and isinstance(x.ctx, ast.Store)}
                if rnames & written:
                    tags.add("loop-condition-evaluated-once")
    return sorted(tags)


def replay(f):
    r = replay_with(f, check_imports=False)
    if r.get("reproduced"):
        try:
            tags = tags_of(f["witness"]["files"], f["witness"]["op"])
        except Exception:
            tags = ["untagged"]
        if tags:
            from harness.bref_replay import manifestation

            how = manifestation(r["signature"])
            r["signature"] = r["signature"].replace("|", "/") + "".join("|%s@%s" % (t, how) for t in tags)
    return r
