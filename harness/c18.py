"""C18 — an interrupted save never leaves a project that cannot be opened (DESIGN.md §5 C18).

Pattern C with a symbolic crash point: the real Project.close() -> _DataFiles.write ->
History.write / MemoryDB.write -> _DataFiles.write_data run on the model file system; the process
"dies" at the k-th file-system write event (k symbolic); then the real Project.__init__,
project.history (History._load_history -> _DataFiles.read_data), MemoryDB._load_files,
get_pymodule and analyze_module run on whatever is on disk."""
import json as _json
from rsx import shims

shims.boot()
from rsx import core, h, mfs  # noqa: E402
from rsx.core import sym_int, choose, PathAbort, Unsupported  # noqa: E402
from rope.base import project as rproject, change, exceptions  # noqa: E402
import rope.base.project as projmod  # noqa: E402
import pickle as _pickle  # noqa: E402

PROPERTY = "C18"
INSTANCE_SECONDS = {"quick": 600, "thorough": 1800}
EXPLANATION = (
    "Crash point = the index k of the file-system write event (open-for-write, each write call, mkdir, ...) at which "
    "the process dies during project.close(); k is a z3 integer ranging over every event of the real save sequence. "
    "pickle is a C boundary: pickle.dump is a stub that writes a 'partial' marker and then the complete stream in two "
    "write events, pickle.load returns the stored object for a complete stream, raises EOFError on an empty file and, "
    "on a partial stream, raises an exception whose kind is a solver-chosen member of the set pickle documents "
    "(UnpicklingError, EOFError, AttributeError, ImportError, IndexError) plus ValueError/KeyError/TypeError/"
    "OverflowError/UnicodeDecodeError. Everything else is rope's real code. Asserted on every path: reopening, "
    "asking for the history, loading the object db and analysing a module do not raise, and the loaded undo list is "
    "the complete previous one, the complete new one, or empty."
)
ASSUMPTIONS = [
    "A6: crash = process death at a write-event boundary; writes already returned are on disk; a truncated pickle stream never unpickles to an object (it lacks its STOP opcode) but may raise any of the listed exception kinds (validated against real truncation of real data files at every byte offset, see evidence.truncation_validation)",
    "A8: model file system semantics",
    "stubs: pickle.dump / pickle.load in rope.base.project as described; json.dump is the real one",
]
OUTSIDE = "power-loss reordering of writes, crashes inside a single write call, the autoimport (sqlite / pickle 'globalnames') data files"
BOUNDS = {"quick": {"histories": 2}, "thorough": {"histories": 3}}
STUBS = ["pickle (rope.base.project): dump = partial marker + complete token, load = object / EOFError / solver-chosen exception", "os/shutil/open -> rsx.mfs"]
ROOT = "/rsx-mfs-root"

FILES = ["a.py", "b.py", ".ropeproject/history", ".ropeproject/history.json", ".ropeproject/objectdb", ".ropeproject/objectdb.json",
         ".ropeproject/config.py", ".ropeproject/globalnames", ".ropeproject/globalnames.json"]
DIRS = [".ropeproject"]

EXC_KINDS = [
    _pickle.UnpicklingError, EOFError, AttributeError, ImportError, IndexError, ValueError, KeyError, TypeError,
    OverflowError, lambda msg: UnicodeDecodeError("utf-8", b"x", 0, 1, msg), MemoryError,
]
EXC_NAMES = ["UnpicklingError", "EOFError", "AttributeError", "ImportError", "IndexError", "ValueError", "KeyError", "TypeError",
             "OverflowError", "UnicodeDecodeError", "MemoryError"]


class Crash(BaseException):
    pass


class PickleStub:
    """stands in for the `pickle` module inside rope.base.project"""

    UnpicklingError = _pickle.UnpicklingError
    PicklingError = _pickle.PicklingError

    def __init__(self):
        self.table = []
        self.exc_kind = None  # set per path (solver-chosen)

    def dump(self, data, f, protocol=None):
        import copy

        f.write(b"T")  # a partial stream is on disk
        self.table.append(copy.deepcopy(data))
        f.parts[:] = []
        f.write(b"P%d" % (len(self.table) - 1))  # the complete stream is on disk

    def load(self, f):
        d = f.read()
        if not d:
            raise EOFError("Ran out of input")
        if d.startswith(b"T"):
            k = self.exc_kind()
            raise EXC_KINDS[k]("truncated pickle stream")
        if d.startswith(b"P"):
            import copy

            return copy.deepcopy(self.table[int(d[1:])])
        raise Unsupported("unexpected data file content %r" % d)


def instances(tier):
    out = [("crash.h%d" % n, dict(n=n, shape="edits")) for n in range(1, BOUNDS[tier]["histories"] + 1)]
    # histories that create, edit and remove a resource (the removed path is gone when the history is read back)
    out += [("crash.resources.h%d" % n, dict(n=n, shape="resources")) for n in range(0, BOUNDS[tier]["histories"])]
    return out


def _descs(hist):
    return [c.description for c in hist.undo_list]


def make_run(p):
    nchanges = p["n"]
    shape = p.get("shape", "edits")
    from harness import c18_script

    def run():
        fs = mfs.MFS(ROOT, FILES, DIRS)
        fs.init_concrete({"a.py": b"def f(p):\n    return p\nx = f(1)\n"})
        undo_shims = mfs.install(fs)
        stub = PickleStub()
        saved_pickle = projmod.pickle
        projmod.pickle = stub
        kind_box = {}

        def exc_kind():
            if "k" not in kind_box:
                kind_box["k"] = choose("exc_kind", len(EXC_KINDS))
            return kind_box["k"]

        stub.exc_kind = exc_kind
        try:
            # session 1: some history, saved completely -> the "previous version" on disk
            p1 = rproject.Project(ROOT, save_history=True, save_objectdb=True, automatic_soa=False)
            c18_script.session1(p1, nchanges, shape)
            p1.pycore.analyze_module(p1.get_file("a.py"))
            p1.close()
            old = _descs(p1.history)
            # session 2: reopen, change more, and die somewhere inside close()
            p2 = rproject.Project(ROOT, save_history=True, save_objectdb=True, automatic_soa=False)
            c18_script.session2(p2, shape)
            new = _descs(p2.history)
            # count the write events of an uninterrupted close on a copy of the state
            snap = fs.snapshot()
            tbl = len(stub.table)
            fs.ticks = 0
            fs.tick_writes = True
            p2.close()
            total = fs.ticks
            fs.restore(snap)
            del stub.table[tbl:]
            crash = sym_int("crash_at", 1, total + 1)  # total + 1: no crash
            fs.ticks = 0
            fs.fault_at = crash
            fs.fault_exc = Crash
            try:
                p2.close()
            except Crash:
                pass
            fs.fault_at = None
            fs.tick_writes = False
            where = list(fs.log)[-1] if fs.log else ""
            disk = {}
            for f_ in FILES:
                if f_.startswith(".ropeproject/") and not f_.endswith(".json") and not f_.endswith(".py"):
                    if fs.is_(f_, mfs.ABSENT):
                        disk[f_] = "absent"
                    else:
                        c = bytes(fs.content[f_])
                        disk[f_] = "empty" if not c else "partial" if c.startswith(b"T") else ("old" if int(c[1:]) < tbl else "new")
            # session 3: the project must open and work
            try:
                p3 = rproject.Project(ROOT, save_history=True, save_objectdb=True, automatic_soa=False)
                got = _descs(p3.history)
                p3.get_pymodule(p3.get_file("a.py")).get_attributes()
                p3.pycore.analyze_module(p3.get_file("a.py"))
            except (PathAbort, Unsupported):
                raise
            except BaseException as e:
                return h.fail("cannot_open_after_crash", "after dying at write event #%s (%s) with pickle raising %s on a partial stream: %s: %s" % (
                    "?", where, EXC_NAMES[kind_box.get("k", 0)], type(e).__name__, e), crash_event=where, disk=disk, exc=EXC_NAMES[kind_box.get("k", 0)], nchanges=nchanges, shape=shape, total=total)
            if got not in (old, new, []):
                return h.fail("history_mixed", "loaded undo list %s is neither the previous %s nor the new %s nor empty" % (got, old, new), crash_event=where, disk=disk, nchanges=nchanges, shape=shape, total=total)
            return h.sample(crash_event=where, loaded=got, total=total)
        finally:
            projmod.pickle = saved_pickle
            undo_shims()

    return run


def run_instance(name, params, seconds):
    return h.explore_instance(make_run(params), seconds)


def extra_evidence(results):
    from harness.c18_truncate import truncation_validation

    return {"truncation_validation": truncation_validation(set(EXC_NAMES))}
