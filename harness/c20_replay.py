"""Replay of C20 counterexamples on un-instrumented rope."""
import shutil
import tempfile
from rope.base import project as rproject
from rope.contrib import codeassist
import rope.base.exceptions as rex
from harness import c20_judge


def replay(f):
    w = f["witness"]
    tmp = tempfile.mkdtemp(prefix="c20replay")
    try:
        proj = rproject.Project(tmp, ropefolder=None)
        try:
            try:
                got = [p.name for p in codeassist.code_assist(proj, w["src"], w["offset"], maxfixes=w["maxfixes"], later_locals=w["later_locals"])]
            except rex.RopeError:
                got = None
            except Exception as e:
                return dict(reproduced=True, signature="c20:%s:internal:%s" % (w["skeleton"], type(e).__name__), detail="code_assist(%r, %d) raised %s: %s" % (w["src"], w["offset"], type(e).__name__, e))
            defloc = None
            if not w["truncated"]:
                try:
                    loc = codeassist.get_definition_location(proj, w["full"], w["offset"], maxfixes=w["maxfixes"])
                    defloc = [None if loc[0] is None else loc[0].path, loc[1]]
                except rex.RopeError:
                    defloc = "refused"
                except Exception as e:
                    return dict(reproduced=True, signature="c20:%s:internal-defloc:%s" % (w["skeleton"], type(e).__name__), detail="get_definition_location(%r, %d) raised %s: %s" % (w["full"], w["offset"], type(e).__name__, e))
        finally:
            proj.close()
        problems = c20_judge.judge(w["full"], w["src"], w["offset"], got, defloc, w["later_locals"])
        if not problems:
            return dict(reproduced=False, signature="", detail="sound")
        cats = sorted({p.split(":")[0] for p in problems})
        return dict(reproduced=True, signature="c20:%s|%s" % (w["skeleton"], "|".join(cats)), detail="module %r cursor %d (shown %r): %s" % (w["full"], w["offset"], w["src"], " | ".join(problems[:4])))
    finally:
        shutil.rmtree(tmp, ignore_errors=True)
