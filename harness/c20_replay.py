"""Replay of C20 counterexamples on un-instrumented rope."""
import shutil
import tempfile
from rope.base import project as rproject
from rope.contrib import codeassist
import rope.base.exceptions as rex
from harness import c20_judge


def replay(f):
    w = f["witness"]
    if w.get("trymode"):
        return _replay_try(w)
    tmp = tempfile.mkdtemp(prefix="c20replay")
    try:
        proj = rproject.Project(tmp, ropefolder=None)
        try:
            try:
                got = [p.name for p in codeassist.code_assist(proj, w["src"], w["offset"], maxfixes=w["maxfixes"], later_locals=w["later_locals"])]
            except rex.RopeError:
                got = None
            except Exception as e:
                return dict(reproduced=True, signature="c20:%s:internal:%s" % (w["skeleton"], type(e).__name__), detail="code_assist(%r, %d) raised %s: %s" % (w["src"], w["offset"], type(e).__name__, e))
            defloc = None
            if not w["truncated"]:
                try:
                    loc = codeassist.get_definition_location(proj, w["full"], w["offset"], maxfixes=w["maxfixes"])
                    defloc = [None if loc[0] is None else loc[0].path, loc[1]]
                except rex.RopeError:
                    defloc = "refused"
                except Exception as e:
                    return dict(reproduced=True, signature="c20:%s:internal-defloc:%s" % (w["skeleton"], type(e).__name__), detail="get_definition_location(%r, %d) raised %s: %s" % (w["full"], w["offset"], type(e).__name__, e))
        finally:
            proj.close()
        problems = c20_judge.judge(w["full"], w["src"], w["offset"], got, defloc, w["later_locals"])
        if not problems:
            return dict(reproduced=False, signature="", detail="sound")
        cats = sorted({p.split(":")[0] for p in problems})
        return dict(reproduced=True, signature="c20:%s|%s" % (w["skeleton"], "|".join(cats)), detail="module %r cursor %d (shown %r): %s" % (w["full"], w["offset"], w["src"], " | ".join(problems[:4])))
    finally:
        shutil.rmtree(tmp, ignore_errors=True)


def _replay_try(w):
    """go-to-definition in the broken module (unfinished try block above the cursor), judged on the
    valid twin that has the same lines and the same bindings"""
    tmp = tempfile.mkdtemp(prefix="c20replay")
    try:
        proj = rproject.Project(tmp, ropefolder=None)
        try:
            try:
                loc = codeassist.get_definition_location(proj, w["src"], w["offset"], maxfixes=w["maxfixes"])
                defloc = [None if loc[0] is None else loc[0].path, loc[1]]
            except rex.RopeError:
                return dict(reproduced=False, signature="", detail="refused")
            except Exception as e:
                return dict(reproduced=True, signature="c20:%s:internal-defloc:%s" % (w["skeleton"], type(e).__name__), detail="get_definition_location(%r, %d) raised %s: %s" % (w["src"], w["offset"], type(e).__name__, e))
        finally:
            proj.close()
        problems = c20_judge.judge(w["full"], w["full"], w["twin_offset"], None, defloc, False)
        if not problems:
            return dict(reproduced=False, signature="", detail="sound")
        line = w["src"].count("\n", 0, w["offset"]) + 1
        where = "defined-below-the-repair" if defloc[1] is not None and defloc[1] > 5 else "defined-above-the-repair"
        # root cause: in a repaired module rope first evaluates the WORD under the cursor as an expression in
        # the scope of that line - the keyword of a call is then taken for a variable of that spelling
        import ast

        full, toff = w["full"], w["twin_offset"]
        tree = ast.parse(full)
        starts = [0]
        for i, ch in enumerate(full):
            if ch == "\n":
                starts.append(i + 1)
        word_end = toff
        while word_end < len(full) and (full[word_end].isalnum() or full[word_end] == "_"):
            word_end += 1
        word_start = toff
        while word_start > 0 and (full[word_start - 1].isalnum() or full[word_start - 1] == "_"):
            word_start -= 1
        word = full[word_start:word_end]
        is_kw = any(isinstance(n, ast.keyword) and n.arg == word and starts[n.lineno - 1] + n.col_offset == word_start for n in ast.walk(tree))
        top = {n.id for st in tree.body for n in ast.walk(st) if isinstance(n, ast.Name) and isinstance(n.ctx, ast.Store) and not isinstance(st, (ast.FunctionDef, ast.ClassDef))}
        if is_kw and word in top:
            where = "keyword-argument-spelled-like-a-variable"
        return dict(reproduced=True, signature="c20:%s|trydef-definition@%s" % (w["skeleton"], where), detail="module %r cursor %d (line %d): %s" % (w["src"], w["offset"], line, " | ".join(problems[:4])))
    finally:
        shutil.rmtree(tmp, ignore_errors=True)
