"""C09 shared pieces (plain Python): the operations tried at every offset, tree snapshots."""
import os

APIS = ["rename", "extract_method", "extract_variable", "inline", "move_global", "change_signature", "introduce_parameter",
        "encapsulate_field", "introduce_factory", "method_object", "local_to_field", "use_function", "find_occurrences", "find_definition"]


def op_for(api, path, offset, src_len):
    end = min(src_len, offset + 3)
    if api == "rename":
        return dict(api="rename", path=path, offset=offset, name="zz")
    if api in ("extract_method", "extract_variable"):
        return dict(api=api, path=path, start=offset, end=end, name="zz")
    if api == "inline":
        return dict(api="inline", path=path, offset=offset)
    if api == "move_global":
        return dict(api="move_global", path=path, offset=offset, dest="dest.py")
    if api == "change_signature":
        return dict(api="change_signature", path=path, offset=offset, changers=[["norm"]])
    if api == "introduce_parameter":
        return dict(api="introduce_parameter", path=path, offset=offset, name="zz")
    if api in ("introduce_factory", "method_object"):
        return dict(api=api, path=path, offset=offset, name="Zz")
    return dict(api=api, path=path, offset=offset)


def perform(proj, op):
    from harness import refops

    if op["api"] == "find_occurrences":
        from rope.contrib import findit

        return findit.find_occurrences(proj, proj.get_resource(op["path"]), op["offset"])
    if op["api"] == "find_definition":
        from rope.contrib import findit

        return findit.find_definition(proj, proj.get_resource(op["path"]).read(), op["offset"])
    return refops.perform(proj, op)


def snapshot(root):
    out = {}
    for d, ds, fs in os.walk(root):
        for x in ds:
            out[os.path.relpath(os.path.join(d, x), root) + "/"] = None
        for x in fs:
            p = os.path.join(d, x)
            with open(p, "rb") as fh:
                out[os.path.relpath(p, root)] = fh.read()
    return out
