"""C09 — computing changes is pure; performing them touches only what was announced; refusals use
rope's own error types (DESIGN.md §5 C09).  Pattern B with monitors."""
import os
import re
import shutil
import tempfile
from harness.bcommon import Skeleton, make_names, force_partition, partition_sig, instantiate, cfiles, program_ok, end_of_path
from harness import c09_common
from rsx import core, h
from rsx.core import choose, PathAbort, Unsupported
from rsx.symstr import concretize
from rsx.proj import SymProject
import rope.base.exceptions as rex
from rope.base import change as rchange

PROPERTY = "C09"
INSTANCE_SECONDS = {"quick": 900, "thorough": 3600}
EXPLANATION = (
    "(errors) for every module of corpus K09, every character position (one instance per position; quick: every "
    "fifth) and every refactoring entry point of a list of 14 (rename, extract method/variable, inline, move, change "
    "signature, introduce parameter, encapsulate field, introduce factory, method object, local to field, use function, "
    "find occurrences, find definition), with symbolic identifier spellings: an exception escaping the public API must "
    "be an instance of rope.base.exceptions.RopeError. (purity) in every such run the project directory is compared "
    "byte for byte before and after computing the changes - also on refusal paths. (containment) on a layout with an "
    "out-of-project module (reached through python_path), an ignored resource and a sibling folder, the changes of "
    "rename / move / inline / change-signature on names defined or used there are performed on the witness project: the "
    "set of paths that differ afterwards must equal get_changed_resources(), lie inside the root, avoid ignored and "
    "out-of-project files, and be named by get_description()."
)
ASSUMPTIONS = ["A2-A4; the offset is a concrete shard, everything else on the path is solver-explored", "extract regions are [offset, offset+3)"]
OUTSIDE = "modules outside corpus K09; entry points not in the list"
BOUNDS = {"quick": {"corpus": "K09", "offset_step": 5}, "thorough": {"corpus": "K09", "offset_step": 1}}

K09 = [
    Skeleton("p03_keyword_to_kwargs", {"main.py": "def make({0}, *rest, **opts):\n    return ({0}, rest, sorted(opts))\nclass kls:\n    def run(self, {1}):\n        {2} = {1} * 2\n        return make({1}, {2}={2}, {3}=1)\nprint(kls().run(2))\n", "dest.py": "zz = 0\n"}),
    Skeleton("p05_global_only_binding", {"main.py": "def setup({0}):\n    global {1}\n    {1} = {0}\nsetup(2)\nprint({1})\n", "dest.py": "zz = 0\n"}),
    Skeleton("p01_mixed", {"main.py": "import os\n{0} = 1\nclass kls:\n    {1} = 2\n    def meth(self, {2}=3):\n        {3} = self.{1} + {2}\n        return {3}  # c\ndef fun({2}):\n    return '{0}' + str({2})\nprint(fun({0}), kls().meth())\n", "dest.py": "zz = 0\n"}),
]

CONTAIN = Skeleton("p02_containment", {
    "main.py": "import outside\nimport ignored_mod\nfrom outside import {0}\n{1} = {0} + outside.{0} + ignored_mod.{2}\ndef fun({3}):\n    return {3} + {1}\nprint(fun(1))\n",
    "ignored_mod.py": "{2} = 5\n",
    "dest.py": "yy = 0\n"})
OUTSIDE_SRC = "{0} = 1\n"


CONTAIN2 = Skeleton("p04_containment_classes_and_resources", {
    "main.py": "import outside\nimport ignored_mod\nimport lib\nfrom lib import twice\nclass Owner:\n    def __init__(self):\n        self.helper = outside.Helper()\n        self.other = ignored_mod.Other()\n        self.mate = lib.Mate()\n        self.{0} = 2\n    def work(self, {1}):\n        return self.{0} * {1}\nprint(Owner().work(3), twice(2), lib.twice(1), lib.Mate().size, outside.ext(1))\n",
    "lib.py": "class Mate:\n    size = 1\ndef twice({2}):\n    return {2} * 2\n",
    "other.py": "import lib\nfrom lib import twice\nval = lib.twice(3) + twice(1) + lib.Mate().size + 4 * 2\n",
    "ignored_mod.py": "class Other:\n    pass\n",
    "dest.py": "yy = 0\n"})
OUTSIDE2_SRC = "class Helper:\n    pass\ndef ext(v):\n    return v + 1\n"


def _contain2_ops(cf):
    """name -> operation on the concrete project: destinations outside the project / ignored, and the
    resources= restriction (performing must stay inside the listed resources)"""
    m, lb = cf["main.py"], cf["lib.py"]
    work = m.index("def work") + 4
    use_twice = m.index("twice(2)")
    def_twice = lb.index("def twice") + 4
    return {
        "move_method.out_of_project_class": dict(api="move_method", path="main.py", offset=work, dest_attr="helper", new_name="moved"),
        "move_method.ignored_class": dict(api="move_method", path="main.py", offset=work, dest_attr="other", new_name="moved"),
        "move_method.restricted": dict(api="move_method", path="main.py", offset=work, dest_attr="mate", new_name="moved", resources=["main.py"]),
        "rename.restricted_to_user": dict(api="rename", path="main.py", offset=use_twice, name="zz", resources=["main.py"]),
        "rename.restricted_to_definer": dict(api="rename", path="lib.py", offset=def_twice, name="zz", resources=["lib.py"]),
        "inline.restricted_to_user": dict(api="inline", path="main.py", offset=use_twice, resources=["main.py"]),
        "inline.only_current": dict(api="inline", path="main.py", offset=use_twice, remove=True, only_current=True),
        "change_signature.restricted_to_user": dict(api="change_signature", path="main.py", offset=use_twice, changers=[["norm"]], resources=["main.py"]),
        "use_function.restricted_to_user": dict(api="use_function", path="lib.py", offset=def_twice, resources=["main.py"]),
        "inline.only_current_defined_out_of_project": dict(api="inline", path="main.py", offset=m.index("ext(1)"), remove=True, only_current=True),
        "inline.defined_out_of_project": dict(api="inline", path="main.py", offset=m.index("ext(1)")),
        "use_function.restricted_to_definer": dict(api="use_function", path="lib.py", offset=def_twice, resources=["lib.py"]),
        "encapsulate_field.restricted_to_definer": dict(api="encapsulate_field", path="lib.py", offset=lb.index("size"), resources=["lib.py"]),
        "introduce_factory.restricted_to_definer": dict(api="introduce_factory", path="lib.py", offset=lb.index("Mate"), name="create", resources=["lib.py"]),
    }


CONTAIN2_OPS = ["move_method.out_of_project_class", "move_method.ignored_class", "move_method.restricted", "rename.restricted_to_user", "rename.restricted_to_definer",
                "inline.restricted_to_user", "inline.only_current", "inline.only_current_defined_out_of_project", "inline.defined_out_of_project", "change_signature.restricted_to_user", "use_function.restricted_to_user", "use_function.restricted_to_definer",
                "encapsulate_field.restricted_to_definer", "introduce_factory.restricted_to_definer"]


def instances(tier):
    out = []
    step = BOUNDS[tier]["offset_step"]
    for k, sk in enumerate(K09):
        dummy = re.sub(r"\{(\d)\}", "z", sk.files["main.py"])
        for off in range(0, len(dummy) + 1, step):
            for a, api in enumerate(c09_common.APIS):
                out.append(("errors.%s.o%03d.%s" % (sk.name, off, api), dict(kind="errors", k=k, off=off, api=api)))
    for q in range(8):
        for api in ("rename", "inline", "move_global", "change_signature"):
            out.append(("contain.q%d.%s" % (q, api), dict(kind="contain", q=q, api=api)))
    for name in CONTAIN2_OPS:
        out.append(("contain2.%s" % name, dict(kind="contain", family=2, opname=name)))
    return out


def make_errors(p):
    sk = K09[p["k"]]
    off, api = p["off"], p["api"]

    def run():
        E = core.ENGINE
        names = make_names(sk, extra_reserved=("zz", "Zz"))
        pat = force_partition(names)
        files = instantiate(sk, names)
        m = E.fresh_model()
        cf = cfiles(files, m)
        if not program_ok(cf):
            raise PathAbort()
        op = c09_common.op_for(api, "main.py", off, len(cf["main.py"]))
        with SymProject() as sp:
            for pth, txt in files.items():
                sp.add(pth, txt)
            before = c09_common.snapshot(sp.tmp)
            outcome = None
            try:
                c09_common.perform(sp.proj, op)
            except rex.RopeError:
                outcome = "refused"
            except (PathAbort, Unsupported):
                raise
            except Exception as e:
                outcome = e
            after = c09_common.snapshot(sp.tmp)
        end_of_path(sk, ("zz", "Zz"))
        if before != after:
            diff = sorted(k for k in set(before) | set(after) if before.get(k) != after.get(k))
            return h.fail("impure", "computing the changes modified the project directory: %s" % diff, skeleton=sk.name, files=files, op=op, partition=partition_sig(pat))
        if isinstance(outcome, Exception):
            f_ = h.fail("internal_exception", "%s at offset %d raised %s: %s" % (api, off, type(outcome).__name__, outcome), skeleton=sk.name, files=files, op=op, partition=partition_sig(pat))
            f_["sig_hint"] = type(outcome).__name__
            return f_
        return h.sample(skeleton=sk.name, files=files, op=op, outcome=outcome or "changes")

    return run


def make_contain(p):
    fam2 = p.get("family") == 2
    sk = CONTAIN2 if fam2 else CONTAIN
    api = p["opname"].split(".")[0] if fam2 else p["api"]

    def run():
        E = core.ENGINE
        names = make_names(sk, extra_reserved=("zz",))
        pat = force_partition(names)
        files = instantiate(sk, names)
        from rsx.proj import build

        outside_src = build(OUTSIDE2_SRC if fam2 else OUTSIDE_SRC, names)
        m = E.fresh_model()
        cf = cfiles(files, m)
        if not program_ok(cf):
            raise PathAbort()
        from harness.bcommon import occurrences_of_slots

        if fam2:
            op = _contain2_ops(cf)[p["opname"]]
        else:
            occs = [o for o in occurrences_of_slots(sk, names) if o[0] == "main.py"]
            if p["q"] >= len(occs):
                raise PathAbort()
            path, slot, off = occs[p["q"]]
            op = c09_common.op_for(api, path, off, len(cf[path]))
        parent = tempfile.mkdtemp(prefix="rsxc09")
        try:
            ext = os.path.join(parent, "ext")
            os.makedirs(ext)
            sib = os.path.join(parent, "sibling")
            os.makedirs(sib)
            with open(os.path.join(sib, "keep.py"), "w") as fh:
                fh.write("keep = 1\n")
            from rsx import proj as rproj
            from rsx.parse import placeholder_text

            with open(os.path.join(ext, "outside.py"), "w") as fh:
                fh.write(placeholder_text(outside_src)[0] if not isinstance(outside_src, str) else outside_src)
            rproj._patch()
            rproj._TABLE[os.path.join(ext, "outside.py")] = outside_src
            with SymProject(python_path=[ext], ignored_resources=["ignored_mod.py", "*.pyc"]) as sp:
                for pth, txt in files.items():
                    sp.add(pth, txt)
                try:
                    changes = c09_common.perform(sp.proj, op)
                except rex.RopeError:
                    return {"refused": True}
                except (PathAbort, Unsupported):
                    raise
                except Exception as e:
                    return h.fail("internal_exception", "%s raised %s: %s" % (api, type(e).__name__, e), skeleton=sk.name, files=files, op=op, outside=outside_src, partition=partition_sig(pat))
                m = E.fresh_model()
                announced = sorted(r.path for r in changes.get_changed_resources() if r is not None)
                real_paths = [r.real_path for r in changes.get_changed_resources() if r is not None]
            end_of_path(sk, ("zz",))
            for rp in real_paths:
                if not os.path.abspath(rp).startswith(os.path.abspath(parent) + os.sep + os.path.basename(sp.tmp)) and not os.path.abspath(rp).startswith(sp.tmp):
                    return h.fail("outside_root", "the change set lists %s which is outside the project root" % rp, model=m, skeleton=sk.name, files=files, op=op, outside=outside_src, partition=partition_sig(pat))
            if any(a == "ignored_mod.py" for a in announced):
                return h.fail("touches_ignored", "the change set modifies the ignored resource ignored_mod.py", model=m, skeleton=sk.name, files=files, op=op, outside=outside_src, partition=partition_sig(pat))
            if op.get("resources") is not None and not set(announced) <= set(op["resources"]):
                return h.fail("outside_resources", "the change set lists %s, the refactoring was restricted to resources=%s" % (announced, op["resources"]), model=m, skeleton=sk.name, files=files, op=op, outside=outside_src, partition=partition_sig(pat))
            return h.sample(skeleton=sk.name, files=files, op=op, announced=announced)
        finally:
            from rsx import proj as rproj2

            rproj2._TABLE.pop(os.path.join(parent, "ext", "outside.py"), None)
            shutil.rmtree(parent, ignore_errors=True)

    return run


def run_instance(name, params, seconds):
    return h.explore_instance(make_errors(params) if params["kind"] == "errors" else make_contain(params), seconds)
