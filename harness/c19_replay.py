import ast
import shutil
from rope.base import project as rproject
from rope.refactor import similarfinder
from harness.bref_replay import replay_with
from harness import c19_oracle
from harness.c02_replay import materialise


def replay(f):
    w = f["witness"]
    if "pattern" in w and "src" in w:
        tmp = materialise({"main.py": w["src"]})
        try:
            proj = rproject.Project(tmp, ropefolder=None)
            try:
                finder = similarfinder.SimilarFinder(proj.get_pymodule(proj.get_file("main.py")))
                got = sorted(tuple(m.get_region()) for m in finder.get_matches(w["pattern"], start=w["start"], end=w["end"]))
            except Exception as e:
                return dict(reproduced=True, signature="c19:%s:find:raised:%s" % (w["skeleton"], type(e).__name__), detail="get_matches(%r) on %r raised %s: %s" % (w["pattern"], w["src"], type(e).__name__, e))
            finally:
                proj.close()
            exp = c19_oracle.reference_regions(w["src"], w["pattern"], w["start"], w["end"])
            if got == exp:
                return dict(reproduced=False, signature="", detail="same matches")
            kind = "missing" if set(exp) - set(got) else "extra"
            return dict(reproduced=True, signature="c19:%s:find:%s:%s" % (w["skeleton"], w["pattern"], kind), detail="pattern %r in %r region [%d,%d): rope %s, reference %s" % (w["pattern"], w["src"], w["start"], w["end"], got, exp))
        finally:
            shutil.rmtree(tmp, ignore_errors=True)

    def post(before, after, op):
        if op["goal"] == op["pattern"] and ast.dump(ast.parse(before["main.py"])) != ast.dump(ast.parse(after["main.py"])):
            return "identity_changes_tree", "goal == pattern changed the syntax tree"
        if op["goal"] != op["pattern"]:
            return c19_oracle.unreplaced(before["main.py"], after["main.py"], op["pattern"], op["goal"])
        return "ok", ""

    r = replay_with(f, post=post, check_imports=False)
    if r.get("reproduced"):
        r["signature"] = r["signature"].replace("|", "/") + ":%s=>%s" % (w["op"]["pattern"], w["op"]["goal"])
        src = w["files"]["main.py"]
        tags = set()
        try:
            import re

            for a, b, env in c19_oracle.matches(src, w["op"]["pattern"]):
                seg = src[a:b]
                for name, text in env.items():
                    if re.search(r"\(\s*" + re.escape(text) + r"\s*\)", seg):
                        tags.add("bound-operand-parenthesised")
        except Exception:
            tags.add("untagged")
        r["signature"] += "".join("|" + t for t in sorted(tags))
    return r
