"""C11 — undo and redo are exact inverses over any history of changes (DESIGN.md §5 C11).

Pattern C: the real Project / History (do, undo, redo, undo(change), drop, max_history_items,
_FindChangeDependencies) / ChangeSet / Change* run on a model file system with a symbolic
pre-state; a reference model replays the changes that are in force from the initial state."""
from rsx import shims

shims.boot()
from rsx import core, h, mfs  # noqa: E402
from rsx.core import sym_int, choose, PathAbort, Unsupported  # noqa: E402
from rsx.symstr import sym_str, concretize  # noqa: E402
from rope.base import project as rproject, change, exceptions  # noqa: E402

PROPERTY = "C11"
INSTANCE_SECONDS = {"quick": 900, "thorough": 3000}
EXPLANATION = (
    "(inverse) arbitrary symbolic pre-state, a composite of m solver-chosen sub-changes that rope can perform on it: "
    "undo must restore the pre-state and redo the post-state exactly (two solver queries per path). (algebra) a sequence "
    "of up to D history operations with solver-chosen codes {do edit/create/move, undo, redo, undo(i), redo(i), "
    "undo(drop), undo(i, drop)} and a solver-chosen max_history_items in 0..3; after every step the tree must equal (solver query) the "
    "tree obtained by a reference model that replays, from the initial state and with primitive file operations only, "
    "exactly the changes that are in force ('never having made' the undone ones); the undo list never exceeds the limit, "
    "a new change clears redo, the redo list is exactly the set of undone changes that were neither dropped nor cleared, "
    "undo/redo with nothing to undo/redo is refused with HistoryError and has no effect."
)
ASSUMPTIONS = [
    "A8/A10 as for C10; file contents are one symbolic letter",
    "RemoveResource is exercised only in the dedicated 'inverse.remove' instances (its undo is unimplemented in rope: known finding)",
    "moves onto existing files are excluded (they destroy the destination; no inverse exists)",
]
OUTSIDE = "sequences longer than D, composites longer than m, universes larger than stated"
BOUNDS = {
    "quick": {"m": 2, "D": 3, "files": ["a.py", "b.py", "d/c.py"], "dirs": ["d"]},
    "thorough": {"m": 3, "D": 4, "files": ["a.py", "b.py", "d/c.py"], "dirs": ["d"]},
}
STUBS = ["os/shutil/open -> rsx.mfs model file system"]
ROOT = "/rsx-mfs-root"
KINDS = ["edit", "mkfile", "mkdir", "move"]
OPS = ["do-edit", "do-mkfile", "do-move", "do-mkdir", "undo", "redo", "undo-i", "redo-i", "undo-drop", "undo-i-drop"]
# family "dir": a folder is moved after changes to files inside it (dependency through containment)
OPS_DIR = ["do-edit", "do-mvdir", "undo", "redo", "undo-i", "redo-i"]
DIR_FILES, DIR_DIRS = ["d/c.py", "e/c.py", "a.py"], ["d", "e"]


def instances(tier):
    b = BOUNDS[tier]
    out = []
    for m in range(1, b["m"] + 1):
        for k0 in range(len(KINDS)):
            out.append(("inverse.m%d.%s" % (m, KINDS[k0]), dict(kind="inverse", m=m, first=k0, tier=tier)))
    out.append(("inverse.remove", dict(kind="inverse-remove", tier=tier)))
    for limit in (2, 3):
        for o1 in range(len(OPS_DIR)):
            for o2 in range(len(OPS_DIR)):
                out.append(("algebra-dir.L%d.%s.%s" % (limit, OPS_DIR[o1], OPS_DIR[o2]), dict(kind="algebra", family="dir", limit=limit, first=[OPS_DIR.index("do-edit"), o1, o2], D=b["D"] + 1, tier=tier)))
    for limit in (0, 1, 2, 3):  # 0: nothing may be kept, every undo is refused
        for o0 in range(4):
            for o1 in range(len(OPS)):
                out.append(("algebra.L%d.%s.%s" % (limit, OPS[o0], OPS[o1]), dict(kind="algebra", limit=limit, first=[o0, o1], D=b["D"], tier=tier)))
    return out


def _mk_change(proj, fs, kn, i, FILES, DIRS):
    """one solver-chosen basic change; returns (change, descriptor)"""
    if kn == "edit":
        f = FILES[choose("t%d" % i, len(FILES))]
        new = sym_str("new%d" % i, 1, ranges=((97, 122),))
        return change.ChangeContents(proj.get_file(f), new), ["edit", f, new]
    if kn == "mkfile":
        f = FILES[choose("t%d" % i, len(FILES))]
        return change.CreateResource(proj.get_file(f)), ["mkfile", f]
    if kn == "mkdir":
        d = DIRS[choose("t%d" % i, len(DIRS))]
        return change.CreateResource(proj.get_folder(d)), ["mkdir", d]
    if kn == "move":
        a = FILES[choose("t%d" % i, len(FILES))]
        b = FILES[choose("u%d" % i, len(FILES))]
        if a == b:
            raise PathAbort()
        return change.MoveResource(proj.get_file(a), b, exact=True), ["move", a, b]
    if kn == "mvdir":
        a = DIRS[choose("t%d" % i, len(DIRS))]
        b = DIRS[choose("u%d" % i, len(DIRS))]
        if a == b or not fs.is_(b, mfs.ABSENT):
            raise PathAbort()  # a folder moved onto an existing folder lands inside it: outside the universe
        return change.MoveResource(proj.get_folder(a), b, exact=True), ["mvdir", a, b]
    f = FILES[choose("t%d" % i, len(FILES))]
    return change.RemoveResource(proj.get_file(f)), ["remove", f]


def _apply_ref(fs, d):
    """reference semantics of one basic change with primitive operations (no rope)"""
    if d[0] == "edit":
        if not fs.is_(d[1], mfs.FILE):
            raise KeyError("edit of a missing file")
        from rsx.symstr import tosym

        fs.content[d[1]] = tosym(d[2]).encode("utf-8") if not isinstance(d[2], bytes) else d[2]
    elif d[0] == "mkfile":
        if not fs.is_(d[1], mfs.ABSENT) or not fs.is_(fs.parent(d[1]), mfs.DIR):
            raise KeyError("create over existing / without parent")
        fs.kind[d[1]] = mfs.FILE
        fs.content[d[1]] = b""
    elif d[0] == "mkdir":
        if not fs.is_(d[1], mfs.ABSENT) or not fs.is_(fs.parent(d[1]), mfs.DIR):
            raise KeyError("mkdir over existing / without parent")
        fs.kind[d[1]] = mfs.DIR
    elif d[0] == "move":
        if not fs.is_(d[1], mfs.FILE) or not fs.is_(d[2], mfs.ABSENT) or not fs.is_(fs.parent(d[2]), mfs.DIR):
            raise KeyError("move")
        fs.kind[d[2]] = mfs.FILE
        fs.content[d[2]] = fs.content[d[1]]
        fs.kind[d[1]] = mfs.ABSENT
    elif d[0] == "mvdir":
        if not fs.is_(d[1], mfs.DIR) or not fs.is_(d[2], mfs.ABSENT):
            raise KeyError("mvdir")
        for q in fs.descendants(d[1]):
            nq = d[2] + q[len(d[1]):]
            fs.kind[nq] = fs.kind[q]
            fs.content[nq] = fs.content[q]
            fs.kind[q] = mfs.ABSENT
        fs.kind[d[2]] = mfs.DIR
        fs.kind[d[1]] = mfs.ABSENT


def _resources(d):
    return {d[1], d[2]} if d[0] in ("move", "mvdir") else {d[1]}


def _touches(r, s):
    return r == s or r.startswith(s + "/") or s.startswith(r + "/")


def _closure(descs, i):
    """reference dependency closure: entry i plus every later entry that touches a resource
    (or a folder containing / contained in a resource) touched by an entry already selected"""
    sel = [i]
    touched = set(_resources(descs[i]))
    for j in range(i + 1, len(descs)):
        rs = _resources(descs[j])
        if any(_touches(r, t) for r in rs for t in touched):
            sel.append(j)
            touched |= rs
    return sel


def _cst(fs, snap, m):
    st = fs.concrete(m, snap)
    return {p: (None if v is None else v.decode("latin-1")) for p, v in st.items()}


def make_inverse(p):
    b = BOUNDS[p["tier"]]
    FILES, DIRS = b["files"], b["dirs"]

    def run():
        E = core.ENGINE
        fs = mfs.MFS(ROOT, FILES, DIRS)
        fs.init_symbolic()
        undo_shims = mfs.install(fs)
        try:
            proj = rproject.Project(ROOT, ropefolder=None, automatic_soa=False)
            pre = fs.snapshot()
            cs = change.ChangeSet("composite")
            desc = []
            if p["kind"] == "inverse-remove":
                c, d = _mk_change(proj, fs, "remove", 0, FILES, DIRS)
                cs.add_change(c)
                desc.append(d)
            else:
                for i in range(p["m"]):
                    kn = KINDS[p["first"]] if i == 0 else KINDS[choose("op%d" % i, len(KINDS))]
                    c, d = _mk_change(proj, fs, kn, i, FILES, DIRS)
                    cs.add_change(c)
                    desc.append(d)
            try:
                proj.do(cs)
            except (PathAbort, Unsupported):
                raise
            except Exception:
                raise PathAbort("composite not valid on this pre-state")
            if fs.overwrites:
                raise PathAbort("overwriting move")
            post = fs.snapshot()
            try:
                proj.history.undo()
            except (PathAbort, Unsupported):
                raise
            except Exception as e:
                return h.fail("undo_raised", "history.undo() of a performed composite raised %s: %s" % (type(e).__name__, e), pre=_cst(fs, pre, E.fresh_model()), ops=desc)
            mdl = E.can_be(fs.differs(pre))
            if mdl is not None:
                return h.fail("undo_not_inverse", "after do+undo the tree differs from the tree before", model=mdl, pre=_cst(fs, pre, mdl), after=_cst(fs, fs.snapshot(), mdl), ops=desc)
            try:
                proj.history.redo()
            except (PathAbort, Unsupported):
                raise
            except Exception as e:
                return h.fail("redo_raised", "history.redo() raised %s: %s" % (type(e).__name__, e), pre=_cst(fs, pre, E.fresh_model()), ops=desc)
            mdl = E.can_be(fs.differs(post))
            if mdl is not None:
                return h.fail("redo_not_inverse", "after do+undo+redo the tree differs from the tree after do", model=mdl, pre=_cst(fs, pre, mdl), after=_cst(fs, fs.snapshot(), mdl), ops=desc)
            return h.sample(pre=_cst(fs, pre, E.fresh_model()), ops=desc)
        finally:
            undo_shims()

    return run


def _check_selection(lst, i, res, done):
    """the change sets rope (un)did must be exactly the reference dependency closure of entry i"""
    descs = []
    for cs_ in lst:
        descs.append([x["desc"] for x in done if x["obj"] is cs_][0])
    exp = {id(lst[j]) for j in _closure(descs, i)}
    got = {id(c) for c in res}
    if exp != got:
        return "selected entry %d of %s: rope (un)did %s, the dependency closure is %s" % (
            i, [d[:3] for d in descs], sorted(lst.index(c) for c in res), sorted(_closure(descs, i)))
    return None


def make_algebra(p):
    b = BOUNDS[p["tier"]]
    FILES, DIRS = b["files"], b["dirs"]
    ops = OPS
    if p.get("family") == "dir":
        FILES, DIRS, ops = DIR_FILES, DIR_DIRS, OPS_DIR
    limit, D = p["limit"], p["D"]

    def run():
        E = core.ENGINE
        fs = mfs.MFS(ROOT, FILES, DIRS)
        fs.init_symbolic()
        undo_shims = mfs.install(fs)
        try:
            proj = rproject.Project(ROOT, ropefolder=None, automatic_soa=False, max_history_items=limit)
            hist = proj.history
            pre = fs.snapshot()
            ref = mfs.MFS(ROOT, FILES, DIRS)
            # reference bookkeeping: every change ever performed, in order, with its status
            done = []  # list of dict(desc, obj, status in force/undone/forgotten)
            trace = []
            for step in range(D):
                code = p["first"][step] if step < len(p["first"]) else choose("code%d" % step, len(ops))
                op = ops[code]
                before = fs.snapshot()
                ulen, rlen = len(hist.undo_list), len(hist.redo_list)
                if op.startswith("do-"):
                    c, d = _mk_change(proj, fs, op[3:], step, FILES, DIRS)
                    cs = change.ChangeSet("step %d" % step)
                    cs.add_change(c)
                    trace.append(d)
                    try:
                        proj.do(cs)
                    except (PathAbort, Unsupported):
                        raise
                    except Exception as e:
                        # refused: must be without effect; the path ends here
                        mdl = E.can_be(fs.differs(before))
                        if mdl is not None:
                            return h.fail("refused_do_changed_tree", "a change that raised %s modified the tree" % type(e).__name__, model=mdl, pre=_cst(fs, pre, mdl), trace=trace, limit=limit)
                        return None
                    if fs.overwrites:
                        raise PathAbort("overwriting move")
                    for x in done:
                        if x["status"] == "undone":
                            x["status"] = "forgotten"  # a new change clears redo
                    done.append(dict(desc=d, obj=cs, status="force"))
                    if len(hist.redo_list) != 0:
                        return h.fail("redo_not_cleared", "a new change did not clear the redo list", pre=_cst(fs, pre, E.fresh_model()), trace=trace, limit=limit)
                else:
                    trace.append([op])
                    try:
                        if op == "undo":
                            res = hist.undo()
                        elif op == "undo-drop":
                            res = hist.undo(drop=True)
                        elif op == "redo":
                            res = hist.redo()
                        elif op in ("undo-i", "undo-i-drop"):
                            if not hist.undo_list:
                                raise PathAbort()
                            i = choose("sel%d" % step, len(hist.undo_list))
                            trace[-1].append(i)
                            lst = list(hist.undo_list)
                            res = hist.undo(lst[i], drop=(op == "undo-i-drop"))
                            bad = _check_selection(lst, i, res, done)
                            if bad:
                                return h.fail("wrong_dependents", bad, pre=_cst(fs, pre, E.fresh_model()), trace=trace, limit=limit)
                        else:
                            if not hist.redo_list:
                                raise PathAbort()
                            i = choose("sel%d" % step, len(hist.redo_list))
                            trace[-1].append(i)
                            lst = list(hist.redo_list)
                            res = hist.redo(lst[i])
                            bad = _check_selection(lst, i, res, done)
                            if bad:
                                return h.fail("wrong_dependents", bad, pre=_cst(fs, pre, E.fresh_model()), trace=trace, limit=limit)
                    except exceptions.HistoryError:
                        expected_empty = (ulen == 0) if op.startswith("undo") else (rlen == 0)
                        mdl = E.can_be(fs.differs(before))
                        if not expected_empty or mdl is not None or len(hist.undo_list) != ulen or len(hist.redo_list) != rlen:
                            return h.fail("bad_refusal", "HistoryError from %s with undo=%d redo=%d entries, or refusal had an effect" % (op, ulen, rlen), pre=_cst(fs, pre, E.fresh_model()), trace=trace, limit=limit)
                        continue
                    except (PathAbort, Unsupported):
                        raise
                    except Exception as e:
                        return h.fail("history_op_raised", "%s raised %s: %s" % (op, type(e).__name__, e), pre=_cst(fs, pre, E.fresh_model()), trace=trace, limit=limit)
                    # reference status update: the returned change sets were (un)done
                    for cs_ in res:
                        for x in done:
                            if x["obj"] is cs_:
                                if op.startswith("undo"):
                                    x["status"] = "forgotten" if op.endswith("-drop") else "undone"
                                else:
                                    x["status"] = "force"
                    # what rope says it undid must be a dependency-closed suffix set: checked through the tree
                # the redo list holds exactly the undone changes that were neither dropped nor cleared by a new change
                if {id(c_) for c_ in hist.redo_list} != {id(x["obj"]) for x in done if x["status"] == "undone"}:
                    return h.fail("redo_list_wrong", "after step %d (%s) the redo list is not the set of undone, not dropped changes" % (step, op), pre=_cst(fs, pre, E.fresh_model()), trace=trace, limit=limit)
                if len(hist.undo_list) > limit:
                    return h.fail("limit_exceeded", "undo list has %d entries, limit %d" % (len(hist.undo_list), limit), pre=_cst(fs, pre, E.fresh_model()), trace=trace, limit=limit)
                # reference tree: replay the changes in force from the initial state
                ref.restore(pre)
                ok = True
                for x in done:
                    if x["status"] == "force":
                        try:
                            _apply_ref(ref, x["desc"])
                        except KeyError as e:
                            ok = False
                            why = str(e)
                            break
                if not ok:
                    return h.fail("not_dependency_closed", "the changes left in force cannot be replayed without the undone ones (%s)" % why, pre=_cst(fs, pre, E.fresh_model()), trace=trace, limit=limit)
                mdl = E.can_be(fs.differs(ref.snapshot()))
                if mdl is not None:
                    return h.fail("tree_differs_from_replay", "after step %d (%s) the tree differs from replaying the changes in force from the initial state" % (step, op),
                                  model=mdl, pre=_cst(fs, pre, mdl), got=_cst(fs, fs.snapshot(), mdl), expected=_cst(fs, ref.snapshot(), mdl), trace=trace, limit=limit)
            return h.sample(pre=_cst(fs, pre, E.fresh_model()), trace=trace, limit=limit)
        finally:
            undo_shims()

    return run


def run_instance(name, params, seconds):
    run = make_algebra(params) if params["kind"] == "algebra" else make_inverse(params)
    return h.explore_instance(run, seconds)
