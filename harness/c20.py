"""C20 — completion and definition lookup are sound at every cursor position (DESIGN.md §5 C20).
Pattern B: contrib.codeassist.code_assist / get_definition_location over corpus K20, symbolic
identifier spellings, the cursor ranging over every character position, with and without
truncation of the current line at the cursor."""
import re
from harness.bcommon import Skeleton, make_names, force_partition, partition_sig, instantiate, cfiles, program_ok, end_of_path
from harness import c20_judge
from rsx import core, h
from rsx.core import choose, PathAbort, Unsupported
from rsx.symstr import concretize, tosym
from rsx.proj import SymProject
from rope.contrib import codeassist
import rope.base.exceptions as rex

PROPERTY = "C20"
INSTANCE_SECONDS = {"quick": 900, "thorough": 3600}
EXPLANATION = (
    "For every module of corpus K20 identifier spellings are symbolic (two-letter slots share or do not share a "
    "first letter, so prefix relations between visible names are solver-explored); the cursor is every character "
    "position (one instance per position), the current line is either left intact or truncated at the cursor (a module "
    "made invalid by an incomplete line), maxfixes and later_locals are solver-split. code_assist must not raise "
    "anything but rope's own errors; every proposal must extend the typed prefix and name a keyword, a builtin or a "
    "name visible at that position under Python's scoping rules; every visible name bound before the cursor line with "
    "that prefix must be offered; get_definition_location on an identifier must lead to a line where its binding is "
    "bound."
)
ASSUMPTIONS = ["A2-A4; dotted completions (after '.') are checked for 'no internal error' and prefix only", "positions inside string literals and comments are checked for 'no internal error' only"]
OUTSIDE = "modules outside corpus K20; attribute completion soundness; identifiers longer than two letters"
BOUNDS = {"quick": {"corpus": "K20"}, "thorough": {"corpus": "K20"}}

K20 = [
    Skeleton("a01_scopes", {"main.py": "{0} = 1\ndef fun({1}):\n    {2} = {1} + {0}\n    return {2}\nclass kls:\n    {3} = 2\n    {5} = {3} + {0}\n    def meth(self, {4}):\n        return {4} + {0}\nprint(fun({0}))\n"}, lens={2: 2, 3: 2}),
    Skeleton("a02_imports_nested", {"main.py": "import os as {0}\nfrom os import sep as {1}\ndef outer({2}):\n    def inner({3}):\n        return {2} + {3}\n    return inner(1) + len({1})\nprint(outer(1), {0}.sep)\n"}, lens={1: 2, 2: 2}),
    Skeleton("a05_class_attr_vs_global_in_nested_def", {"main.py": "{0} = 1\nclass kls:\n    {1} = 2\n    def meth(self):\n        def gg():\n            return {2}\n        return gg()\nprint(kls().meth(), {3})\n"}),
    Skeleton("a03_attrs_and_partial", {"main.py": "class kls:\n    def __init__(self):\n        self.{0} = 1\n    def get(self):\n        return self.{0}\n{1} = kls()\nprint({1}.get(), {1}.{0})\n"}, lens={0: 2}),
]


def instances(tier):
    out = []
    for k, sk in enumerate(K20):
        T = sk.files["main.py"]
        dummy = re.sub(r"\{(\d)\}", lambda mm: "z" * sk.lens.get(int(mm.group(1)), 1), T)
        if tier == "thorough":
            offs = range(0, len(dummy) + 1)
        else:
            # quick: the positions where something is being typed: inside and at the end of every
            # identifier slot occurrence, and the end of every line
            offs = set()
            pos = 0
            shift = 0
            for mm in re.finditer(r"\{(\d)\}", T):
                L = sk.lens.get(int(mm.group(1)), 1)
                start = mm.start() + shift
                offs.update(range(start + 1, start + L + 1))
                if L == 1:
                    offs.add(start)  # ON a one-letter identifier (go-to-definition is judged only there)
                if dummy[start + L: start + L + 1] == " ":
                    offs.add(start + L + 1)  # after the name and one blank: nothing is being typed there
                shift += L - len(mm.group(0))
            for i, ch in enumerate(dummy):
                if ch == "\n" and i % 2 == 0:
                    offs.add(i)
            offs = sorted(offs)
        for off in offs:
            # quick: one slot of the six-slot skeleton is pinned to a fixed spelling (a third of the partitions)
            pin = {4: "p"} if (tier == "quick" and sk.name == "a01_scopes") else {}
            out.append(("assist.%s.o%03d" % (sk.name, off), dict(k=k, off=off, pin=pin)))
    return out


def make_run(p):
    sk = K20[p["k"]]
    off = p["off"]

    def run():
        E = core.ENGINE
        names = make_names(sk, alphabet=[(ord(c), ord(c)) for c in "ghjkmq"])
        for slot, spelling in (p.get("pin") or {}).items():
            names[int(slot)] = spelling
        pat = force_partition(names)
        files = instantiate(sk, names)
        src = files["main.py"]
        m = E.fresh_model()
        csrc = concretize(src, m)
        if not program_ok({"main.py": csrc}):
            raise PathAbort()
        truncate = bool(choose("truncate", 2))
        maxfixes = 1
        later = bool(choose("later_locals", 2))
        if truncate:
            bol = csrc.rfind("\n", 0, off) + 1
            if not csrc[bol:off].strip():
                raise PathAbort("cursor inside the indentation: the scope of an incomplete line is ambiguous")
            eol = csrc.find("\n", off)
            eol = len(csrc) if eol == -1 else eol
            src2 = tosym(src)[:off] + tosym(src)[eol:] if off < len(csrc) else src
            csrc2 = csrc[:off] + csrc[eol:]
        else:
            src2, csrc2 = src, csrc
        with SymProject() as sp:
            try:
                props = codeassist.code_assist(sp.proj, src2, off, maxfixes=maxfixes, later_locals=later)
                got = [pr.name for pr in props]
                err = None
            except rex.RopeError as e:
                got, err = None, type(e).__name__
            except (PathAbort, Unsupported):
                raise
            except Exception as e:
                return h.fail("internal_error", "code_assist raised %s: %s" % (type(e).__name__, e), model=m, skeleton=sk.name, src=src2, full=src, offset=off, maxfixes=maxfixes, later_locals=later, truncated=truncate)
            defloc = None
            if not truncate:
                try:
                    loc = codeassist.get_definition_location(sp.proj, src, off, maxfixes=maxfixes)
                    defloc = [None if loc[0] is None else loc[0].path, loc[1]]
                except rex.RopeError:
                    defloc = "refused"
                except (PathAbort, Unsupported):
                    raise
                except Exception as e:
                    return h.fail("internal_error", "get_definition_location raised %s: %s" % (type(e).__name__, e), model=m, skeleton=sk.name, src=src2, full=src, offset=off, maxfixes=maxfixes, later_locals=later, truncated=truncate)
        end_of_path(sk)
        m = E.fresh_model()  # the witness of the *final* path condition
        csrc, csrc2 = concretize(src, m), concretize(src2, m)
        got = None if got is None else [concretize(x, m) for x in got]
        problems = c20_judge.judge(csrc, csrc2, off, got, defloc, later)
        if problems:
            f_ = h.fail("assist_unsound", "; ".join(problems[:3]), model=m, skeleton=sk.name, src=src2, full=src, offset=off, maxfixes=maxfixes, later_locals=later, truncated=truncate)
            f_["sig_hint"] = ",".join(sorted({x.split(":")[0] for x in problems}))
            return f_
        return h.sample(skeleton=sk.name, src=src2, offset=off, proposals=got)

    return run


# ---------------------------------------------------------------------------------------------
# go-to-definition below an unfinished try block whose last line is still being typed: the syntax
# repair (fixsyntax._Commenter) comments the line out and INSERTS 'finally: pass', so every offset
# and line below is mapped through the inserted text
TRY_T = ("def make({0}, {1}=0):\n    return {0} + {1}\n{2} = 10\n%s\n    {3} = {2} + %s\n{4} = make({2}, {1}=3)\nprint({4}, {3})\n"
         "def later({0}):\n    return {0}\n{4} = later({4})\nprint({4})\n")
TRY_SK = Skeleton("a04_unfinished_try_above", {"main.py": TRY_T % ("if 1:", "1")})  # the valid twin (same lines, same bindings)
TRY_TAILS = ["", "("]  # what is left of the operand being typed on line 5


def _try_query_positions():
    """(line, col) of every identifier start on the lines below the block, in the slot-free dummy"""
    dummy = re.sub(r"\{(\d)\}", "z", TRY_T % ("try:", ""))
    out = []
    for ln, text in enumerate(dummy.split("\n"), 1):
        if ln >= 6:
            for mm in re.finditer(r"[A-Za-z_][A-Za-z_0-9]*", text):
                out.append((ln, mm.start()))
    return out


def make_try_run(p):
    ln, col = p["pos"]

    def run():
        E = core.ENGINE
        sk = TRY_SK
        names = make_names(sk, alphabet=[(ord(c), ord(c)) for c in "ghjkmq"])
        pat = force_partition(names)
        from rsx.proj import build

        tail = TRY_TAILS[choose("tail", len(TRY_TAILS))]
        broken = build(TRY_T % ("try:", tail), names)
        twin = build(TRY_T % ("if 1:", "1"), names)
        m = E.fresh_model()
        cb, ct = concretize(broken, m), concretize(twin, m)
        if not program_ok({"main.py": ct}):
            raise PathAbort()
        lb = cb.split("\n")
        lt = ct.split("\n")
        off_b = sum(len(x) + 1 for x in lb[:ln - 1]) + col
        off_t = sum(len(x) + 1 for x in lt[:ln - 1]) + col
        maxfixes = (1, 3)[choose("maxfixes", 2)]
        with SymProject() as sp:
            try:
                loc = codeassist.get_definition_location(sp.proj, broken, off_b, maxfixes=maxfixes)
                defloc = [None if loc[0] is None else loc[0].path, loc[1]]
            except rex.RopeError:
                return {"refused": True}
            except (PathAbort, Unsupported):
                raise
            except Exception as e:
                return h.fail("internal_error", "get_definition_location raised %s: %s" % (type(e).__name__, e), model=m, skeleton=sk.name, src=broken, full=twin, offset=off_b, twin_offset=off_t, maxfixes=maxfixes, later_locals=False, truncated=True, trymode=True)
        end_of_path(sk)
        m = E.fresh_model()
        cb, ct = concretize(broken, m), concretize(twin, m)
        problems = c20_judge.judge(ct, ct, off_t, None, defloc, False)
        if problems:
            f_ = h.fail("assist_unsound", "; ".join(problems[:3]), model=m, skeleton=sk.name, src=broken, full=twin, offset=off_b, twin_offset=off_t, maxfixes=maxfixes, later_locals=False, truncated=True, trymode=True)
            f_["sig_hint"] = "trydef:" + ",".join(sorted({x.split(":")[0] for x in problems}))
            return f_
        return h.sample(skeleton=sk.name, src=broken, offset=off_b, defloc=defloc)

    return run


_BASE_INSTANCES = instances


def instances(tier):  # noqa: F811
    out = _BASE_INSTANCES(tier)
    for i, pos in enumerate(_try_query_positions()):
        out.append(("trydef.l%02dc%02d" % pos, dict(kind="trydef", pos=list(pos))))
    return out


def run_instance(name, params, seconds):
    if params.get("kind") == "trydef":
        return h.explore_instance(make_try_run(params), seconds)
    return h.explore_instance(make_run(params), seconds)
