"""C12 history conversion on un-instrumented rope: rebuild the changes of a recipe on a real project,
save them the way Project.close does (ChangeToData -> python_to_json -> JSON text), load them the way
History does, twice, and compare what the changes mean."""
import json
import os
import shutil
import tempfile
from rope.base import change, project as rproject, serializer


def build(proj, r):
    k = r[0]
    if k == "contents":
        return change.ChangeContents(proj.get_file(r[1]), r[2], r[3])
    if k == "move":
        return change.MoveResource(proj.get_file(r[1]), r[2], exact=True)
    if k == "create-resource-file":
        return change.CreateResource(proj.get_file(r[1]))
    if k == "create-resource-folder":
        return change.CreateResource(proj.get_folder(r[1]))
    if k == "create-folder":
        return change.CreateFolder(proj.root, r[1])
    if k == "create-file":
        return change.CreateFile(proj.root, r[1])
    if k == "remove":
        return change.RemoveResource(proj.get_file(r[1]))
    if k == "set":
        cs = change.ChangeSet(r[1], timestamp=r[2])
        for x in r[3]:
            cs.add_change(build(proj, x))
        return cs
    raise ValueError(k)


def meaning(c):
    if isinstance(c, change.ChangeSet):
        return ["set", c.description, c.time, [meaning(x) for x in c.changes]]
    if isinstance(c, change.ChangeContents):
        return ["contents", c.resource.path, c.resource.is_folder(), c.new_contents, c.old_contents]
    if isinstance(c, change.MoveResource):
        return ["move", c.resource.path, c.resource.is_folder(), c.new_resource.path, c.new_resource.is_folder()]
    if isinstance(c, change.CreateResource):
        return ["create", c.resource.path, c.resource.is_folder()]
    if isinstance(c, change.RemoveResource):
        return ["remove", c.resource.path, c.resource.is_folder()]
    return ["?", type(c).__name__]


def scenario(recipe, version):
    """list of problems (empty = the saved history means what the performed one meant)"""
    tmp = tempfile.mkdtemp(prefix="c12hist")
    try:
        os.makedirs(os.path.join(tmp, "d"))
        with open(os.path.join(tmp, "a.py"), "w") as fh:
            fh.write("x\n")
        proj = rproject.Project(tmp, ropefolder=None, automatic_soa=False)
        try:
            changes = [build(proj, r) for r in recipe]
            want = [meaning(c) for c in changes]
            cur = changes
            problems = []
            for cycle in (1, 2):
                data = [change.ChangeToData()(c) for c in cur]
                text = json.dumps(serializer.python_to_json(data, version))
                cur = [change.DataToChange(proj)(d) for d in serializer.json_to_python(json.loads(text))]
                got = [meaning(c) for c in cur]
                if got != want:
                    problems.append("after %d save/load cycle(s): %r became %r" % (cycle, want, got))
                    break
            return problems
        finally:
            proj.close()
    finally:
        shutil.rmtree(tmp, ignore_errors=True)
