"""refops: one place where a JSON-able operation description is turned into a call of rope's
public refactoring API.  Used by the instrumented harnesses (values may be proxies) and by the
replays on un-instrumented rope (concrete values), so both exercise the same call."""


def _resources_kw(proj, op):
    """the optional resources= restriction, as resource objects"""
    if op.get("resources") is None:
        return {}
    return {"resources": [proj.get_resource(p) for p in op["resources"]]}


def perform(proj, op):
    """returns the rope Change object (or raises what rope raises)"""
    api = op["api"]
    rk = _resources_kw(proj, op)
    res = proj.get_resource(op["path"]) if op.get("path") is not None else None
    if op.get("module") is not None:  # a module named the way an import names it (may lie outside the project)
        res = proj.find_module(op["module"])
    if api in ("extract_method", "extract_variable"):
        from rope.refactor import extract

        cls = extract.ExtractMethod if api == "extract_method" else extract.ExtractVariable
        return cls(proj, res, op["start"], op["end"]).get_changes(op["name"], similar=op.get("similar", False), global_=op.get("global_", False), kind=op.get("kind"))
    if api == "inline":
        from rope.refactor import inline

        inl = inline.create_inline(proj, res, op["offset"])
        if inl.get_kind() == "parameter":
            return inl.get_changes()  # InlineParameter takes no remove / only_current
        return inl.get_changes(**{k: op[k] for k in ("remove", "only_current") if k in op}, **rk)
    if api == "rename":
        from rope.refactor import rename

        return rename.Rename(proj, res, op.get("offset")).get_changes(op["name"], **{k: op[k] for k in ("docs", "in_hierarchy") if k in op}, **rk)
    if api == "move_global":
        from rope.refactor import move

        return move.create_move(proj, res, op["offset"]).get_changes(proj.get_resource(op["dest"]), **rk)
    if api == "move_module":
        from rope.refactor import move

        return move.create_move(proj, res).get_changes(proj.get_resource(op["dest"]) if op["dest"] != "" else proj.root)
    if api == "move_method":
        from rope.refactor import move

        return move.create_move(proj, res, op["offset"]).get_changes(op["dest_attr"], new_name=op.get("new_name"), **rk)
    if api == "to_package":
        from rope.refactor import topackage

        return topackage.ModuleToPackage(proj, res).get_changes()
    if api in ("organize_imports", "expand_star_imports", "froms_to_imports", "relatives_to_absolutes", "handle_long_imports"):
        from rope.refactor.importutils import ImportOrganizer

        return getattr(ImportOrganizer(proj), api)(res)
    if api == "change_signature":
        from rope.refactor import change_signature as cs

        changers = []
        for c in op["changers"]:
            if c[0] == "norm":
                changers.append(cs.ArgumentNormalizer())
            elif c[0] == "remove":
                changers.append(cs.ArgumentRemover(c[1]))
            elif c[0] == "add":
                changers.append(cs.ArgumentAdder(c[1], c[2], c[3], c[4]))
            elif c[0] == "inline":
                changers.append(cs.ArgumentDefaultInliner(c[1]))
            elif c[0] == "reorder":
                changers.append(cs.ArgumentReorderer(list(c[1]), autodef=c[2]))
        return cs.ChangeSignature(proj, res, op["offset"]).get_changes(changers, **rk)
    if api == "introduce_parameter":
        from rope.refactor import introduce_parameter

        return introduce_parameter.IntroduceParameter(proj, res, op["offset"]).get_changes(op["name"])
    if api == "encapsulate_field":
        from rope.refactor import encapsulate_field

        return encapsulate_field.EncapsulateField(proj, res, op["offset"]).get_changes(**{k: op[k] for k in ("getter", "setter") if op.get(k)}, **rk)
    if api == "introduce_factory":
        from rope.refactor import introduce_factory

        return introduce_factory.IntroduceFactory(proj, res, op["offset"]).get_changes(op["name"], global_factory=op.get("global_factory", False), **rk)
    if api == "method_object":
        from rope.refactor import method_object

        return method_object.MethodObject(proj, res, op["offset"]).get_changes(op["name"])
    if api == "local_to_field":
        from rope.refactor import localtofield

        return localtofield.LocalToField(proj, res, op["offset"]).get_changes()
    if api == "use_function":
        from rope.refactor import usefunction

        return usefunction.UseFunction(proj, res, op["offset"]).get_changes(**rk)
    if api == "restructure":
        from rope.refactor import restructure

        return restructure.Restructure(proj, op["pattern"], op["goal"], args=op.get("args"), imports=op.get("imports")).get_changes()
    raise KeyError(api)
