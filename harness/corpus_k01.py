"""Corpus K01: scope / binding skeletons for C01, C02 (and reused by C15, C20).  `{k}` = identifier
slot k (symbolic spelling); everything else is concrete.  Hand-written seeds, one per construct the
property texts name."""
from harness.bcommon import Skeleton

K01 = [
    Skeleton("s01_func_local_comp", {"main.py": "{0} = 1\ndef fun({1}):\n    {2} = {3} + {0}\n    return [{4} for {4} in [{2}, {1}]]\nprint(fun({0}))\n"}),
    Skeleton("s02_class_default", {"main.py": "{0} = 1\nclass kls:\n    {1} = {0}\n    def meth(self, {2}={0}):\n        return {3} + {2}\nprint(kls().meth(), kls.{1})\n"}),
    Skeleton("s03_nonlocal", {"main.py": "def outer({0}):\n    {1} = {0}\n    def inner():\n        nonlocal {2}\n        {2} = {3}\n        return {1}\n    return inner()\n{4} = 3\nprint(outer({4}))\n"}),
    Skeleton("s04_global_lambda", {"main.py": "{0} = 2\ndef fun():\n    global {1}\n    {1} = {2}\n    return (lambda {3}: {3} + {0})({1})\nprint(fun())\n"}),
    Skeleton("s05_class_nested_func", {"main.py": "{0} = 1\nclass kls:\n    {1} = 2\n    def meth(self):\n        def gg():\n            return {2}\n        return gg()\nprint(kls().meth(), {3})\n"}),
    Skeleton("s06_for_except", {"main.py": "{0} = [1, 2]\nfor {1} in {0}:\n    {2} = {1}\ntry:\n    raise KeyError({2})\nexcept KeyError as {3}:\n    print({3}, {1})\n"}),
    Skeleton("s07_keyword_args", {"main.py": "def fun({0}, {1}=2):\n    return {0} + {1}\n{2} = 5\nprint(fun({2}, {3}=3))\n"}),
    Skeleton("s08_walrus_comp", {"main.py": "{0} = 3\n{1} = [{2} for {2} in range({0}) if ({3} := {2}) > 0]\nprint({1}, {3})\n"}),
    Skeleton("s09_decorator_closure", {"main.py": "def deco({0}):\n    def wrap(*{1}):\n        return {0}(*{1}) + 1\n    return wrap\n@deco\ndef fun({2}):\n    return {2}\n{3} = fun(1)\nprint({3})\n"}),
    Skeleton("s10_import_alias", {"main.py": "import os as {0}\nfrom os import sep as {1}\n{2} = {0}.sep\nprint({1} == {2})\n"}),
    Skeleton("s11_strings_comments", {"main.py": "{0} = 1\n# {0} in a comment\n{1} = \"{0} in a string\"\nprint({0}, {1}, f\"{{0}}\")  # {1}\n"}),
    Skeleton("s12_method_self_attr", {"main.py": "class kls:\n    def __init__(self, {0}):\n        self.{1} = {0}\n    def get(self):\n        {2} = self.{1}\n        return {2}\n{3} = kls(4)\nprint({3}.get(), {3}.{1})\n"}),
    Skeleton("s13_with_augassign", {"main.py": "import io\n{0} = 0\nwith io.StringIO('x') as {1}:\n    {0} += len({1}.read())\n    {2} = {0}\nprint({0}, {2})\n"}),
    Skeleton("s14_def_names", {"main.py": "def {0}({1}):\n    return {1}\ndef {2}({3}):\n    return {0}({3}) + 1\nprint({2}(1))\n"}),
    Skeleton("s15_ctor_and_call_keywords", {"main.py": "class kls:\n    def __init__(self, {0}):\n        self.val = {0}\n    def __call__(self, {1}):\n        return self.val * {1}\n{2} = kls({0}=3)\nprint({2}({1}=14))\n"}),
    Skeleton("s16_one_line_defs", {"main.py": "def {0}({1}): {2} = {1} + 1; return {2}\ndef outer({3}):\n    def {0}({3}): return {3} + 1\n    return {0}({3})\nprint({0}(1), outer(2))\n"}),
    Skeleton("s17_multiline_fstring", {"main.py": "{0} = 1\n{1} = 2\n{2} = f\"\"\"<{{0}}>\n[{{1}}] {{0}}\"\"\"\nprint({2})\n"}),
    Skeleton("m01_two_modules", {"mod1.py": "{0} = 1\ndef {1}({2}):\n    return {2} + {0}\n", "main.py": "import mod1\nfrom mod1 import {3}\nprint(type(mod1.{4}).__name__, type({3}).__name__)\n"}),
    Skeleton("m02_from_alias", {"mod1.py": "{0} = 1\n{1} = 2\n", "main.py": "from mod1 import {0} as {2}\n{3} = 5\nprint({2}, {3})\n"}),
    Skeleton("m03_package_relative", {"pkg/__init__.py": "", "pkg/aa.py": "{0} = 7\n", "pkg/bb.py": "from . import aa\nfrom .aa import {1}\ndef {2}():\n    return aa.{0} + {1}\n", "main.py": "from pkg.bb import {3}\nprint({3}())\n"}),
]
