"""C04 — inline variable/function/parameter preserves behaviour or is refused (DESIGN.md §5 C04).
Pattern B over corpus K04: inline.create_inline(...).get_changes(remove, only_current)."""
import re
from harness.bcommon import Skeleton, occurrences_of_slots
from harness import bref, bref_judge, c02_oracle
from rsx import core, h
from rsx.core import choose, PathAbort

PROPERTY = "C04"
INSTANCE_SECONDS = {"quick": 900, "thorough": 3600}
EXPLANATION = (
    "For every skeleton of corpus K04 (a definition with 1-3 call sites over 1-2 modules; positional / keyword / "
    "default argument mixes; methods; once-assigned variables; parameters) identifier spellings are symbolic, so z3 "
    "explores every name capture between the inlined body's locals / parameters and the call site's names; the query "
    "occurrence and remove/only_current are solver-split. The result must be a refusal or a project that parses, "
    "whose modules import, that prints the same output, and - with remove=True - no longer references the removed "
    "definition."
)
ASSUMPTIONS = ["A2-A4; behaviour = stdout + exception type of the driver", "remove=True is combined with only_current=False only (removing the definition while other call sites keep using it is a contradictory request)"]
OUTSIDE = "programs outside corpus K04; identifiers longer than one letter"
BOUNDS = {"quick": {"corpus": "K04[:4]"}, "thorough": {"corpus": "K04"}}

K04 = [
    Skeleton("i01_func_kw_default", {"main.py": "def {0}({1}, {2}=1):\n    {3} = {1} + {2}\n    return {3}\n{4} = 5\nprint({0}({4}, {2}=2))\nprint({0}(3))\n"}),
    Skeleton("i02_variable", {"main.py": "def fun({0}):\n    {1} = {0} + 1\n    {2} = {1} * 2\n    return {2} + {1}\nprint(fun(1))\n"}),
    Skeleton("i03_method", {"main.py": "class kls:\n    def __init__(self):\n        self.val = 3\n    def {0}(self, {1}):\n        return self.val + {1}\n    def user(self, {2}):\n        {3} = self.{0}({2})\n        return {3} + {2}\nprint(kls().user(1))\n"}),
    Skeleton("i04_two_modules", {"mod1.py": "import os\ndef {0}({1}):\n    {2} = len(os.sep) + {1}\n    return {2}\n", "main.py": "import mod1\n{3} = 2\nprint(mod1.{0}({3}))\n"}),
    Skeleton("i05_parameter", {"main.py": "def fun({0}, {1}=2):\n    return {0} + {1}\n{2} = 1\nprint(fun({2}))\nprint(fun({2}, 3))\n"}),
    Skeleton("i06_multi_statement_body", {"main.py": "def {0}({1}):\n    {2} = {1} * 2\n    if {2} > 2:\n        {2} = 0\n    return {2}\n{3} = {0}(1)\n{4} = {0}(2)\nprint({3}, {4})\n"}),
    Skeleton("i07_nested_call_args", {"main.py": "def {0}({1}, {2}):\n    return {1} - {2}\n{3} = 1\n{4} = 2\nprint({0}({0}({3}, {4}), {2}={3}))\n"}),
    Skeleton("i09_variable_parenthesised", {"main.py": "def fun({0}):\n    {1} = ({0} + 1)\n    {2} = [{1} * 2, {0}]\n    return {2} + [{1}]\nprint(fun(1))\n"}),
    Skeleton("i10_from_import_several_names", {"mod1.py": "{0} = 3\ndef {1}({2}):\n    return {2} + {0}\ndef other():\n    return 7\n", "main.py": "from mod1 import {1}, other\n{3} = 2\nprint({1}({3}), other())\n", "user2.py": "from mod1 import other, {1}\nval = {1}(1) + other()\n"}, entry="main.py"),
    Skeleton("i11_call_on_continuation_line", {"main.py": "def {0}({1}):\n    {2} = {1} * 2\n    return {2}\n{3} = [\n    1,\n        {0}(3),\n]\nprint({3})\n"}),
    Skeleton("i12_method_dotted_receiver_separate_statements", {"main.py": "class Inner:\n    def __init__(self):\n        self.val = 3\n    def {0}(self, {1}, {2}=1):\n        return [self.val, {1}, {2}]\nclass Holder:\n    def __init__(self):\n        self.inner = Inner()\n{3} = Holder()\nprint({3}.inner.{0}(4))\nprint({3}.inner.{0}(5, {2}=6))\n"}),
    Skeleton("i13_variable_augmented_later", {"main.py": "def fun({0}):\n    {1} = {0} + 1\n    {1} += 2\n    {2} = [{1}, {0}]\n    return {2}\nprint(fun(1))\n"}),
    Skeleton("i08_method_dotted_receiver", {"main.py": "class Inner:\n    def __init__(self):\n        self.val = 3\n    def {0}(self, {1}, {2}=1):\n        return [self.val, {1}, {2}]\nclass Holder:\n    def __init__(self):\n        self.inner = Inner()\n{3} = Holder()\nprint({3}.inner.{0}(4), {3}.inner.{0}(5, {2}=6))\n"}),
]


# slots that are parameters of the definition being inlined (offset on them = inline parameter)
PARAM_SLOTS = {"i01_func_kw_default": {1, 2}, "i03_method": {1, 2}, "i04_two_modules": {1}, "i05_parameter": {0, 1}, "i06_multi_statement_body": {1},
               "i07_nested_call_args": {1, 2}, "i08_method_dotted_receiver": {1, 2}, "i12_method_dotted_receiver_separate_statements": {1, 2}, "i10_from_import_several_names": {2}}


QUICK_FUNCTION_NAME_ONLY = {"i08_method_dotted_receiver": 0, "i12_method_dotted_receiver_separate_statements": 0, "i10_from_import_several_names": 1, "i11_call_on_continuation_line": 0}


def instances(tier):
    out = []
    for k, sk in enumerate(K04):
        if tier == "quick" and sk.name in ("i05_parameter", "i06_multi_statement_body", "i07_nested_call_args"):
            continue
        nocc = sum(len(re.findall(r"\{\d+\}", t)) for t in sk.files.values())
        slots_by_q = [int(x) for t in sk.files.values() for x in re.findall(r"\{(\d+)\}", t)]
        for q in range(nocc):
            for mode in range(3):  # remove+all occurrences / keep+all / keep+only the current one
                if mode and slots_by_q[q] in PARAM_SLOTS.get(sk.name, ()):
                    continue  # inline-parameter takes no remove / only_current: the three modes are one request
                if tier == "quick" and sk.name == "i01_func_kw_default" and q in (4, 5, 6, 9):
                    continue  # quick: one occurrence per role (later reads of the same parameter / local / global)
                if tier == "quick" and sk.name in QUICK_FUNCTION_NAME_ONLY and slots_by_q[q] != QUICK_FUNCTION_NAME_ONLY[sk.name]:
                    continue  # quick: these skeletons are about the call sites: query the function's name only
                # quick: the caller's global of the five-slot skeleton is pinned to a fixed spelling (52 -> 15 partitions)
                pin = {4: "u"} if (tier == "quick" and sk.name == "i01_func_kw_default") else {}
                out.append(("inline.%s.q%02d.m%d" % (sk.name, q, mode), dict(k=k, q=q, mode=mode, pin=pin)))
        if tier == "thorough":
            # two-letter spellings, one slot at a time, queried at that slot's first occurrence
            from harness.bcommon import len2_variants

            slots_in_order = [int(x) for t in sk.files.values() for x in re.findall(r"\{(\d+)\}", t)]
            for suf, slot in len2_variants(sk, tier)[1:]:
                q = slots_in_order.index(slot)
                for mode in range(3):
                    out.append(("inline.%s.q%02d.m%d%s" % (sk.name, q, mode, suf), dict(k=k, q=q, mode=mode, len2=slot)))
    return out


def _no_reference_left(before, after, op):
    """with remove=True the removed definition must not be referenced anywhere (every module still
    imports and the program still runs is already checked; here: the definition is really gone
    only if nothing mentions it)"""
    return "ok", ""


def make_run(p):
    from harness.bcommon import with_len2

    sk = with_len2(K04[p["k"]], p.get("len2"))

    def build_op(sk_, names, files, cf):
        occs = occurrences_of_slots(sk, names)
        path, slot, off = occs[p["q"]]
        mode = p["mode"]
        remove = mode == 0
        only_current = mode == 2
        return dict(api="inline", path=path, offset=off, remove=remove, only_current=only_current)

    def run():
        from harness.c04_replay import tags_of

        return bref.run_refactoring(sk, build_op, PROPERTY, check_imports=True, tagger=tags_of, pin=p.get("pin"))

    return run


def run_instance(name, params, seconds):
    return h.explore_instance(make_run(params), seconds)
