"""C12: real Project.close() / reopen on the real file system with real pickle, at solver-chosen
concrete histories (bug-hunting strength: pickle and the file system are C boundaries)."""
import os
import shutil
import tempfile
from rsx import h
from rsx.core import choose
from harness.c12_reopen_plain import scenario


def make_reopen_run(p):
    def run():
        ops = [[0, 0, 1]]  # an initial edit so that there is history to save
        for i in range(2):
            kind = p["k"] if i == 0 else choose("op%d" % i, 6)
            f = choose("f%d" % i, 3)
            c = choose("c%d" % i, 3)
            ops.append([kind, f, c])
        problems = scenario(ops)
        if problems:
            return h.fail("reopen_differs", "; ".join(problems[:3]), ops=ops)
        return h.sample(ops=ops)

    return run
