"""C10 — a composite change is all-or-nothing under failure and interruption (DESIGN.md §5 C10).

Pattern C: the real Project / ChangeSet / Change* / _ResourceOperations / FileSystemCommands /
History / TaskHandle / JobSet run on a model file system whose pre-state is symbolic."""
from rsx import shims

shims.boot()
from rsx import core, h, mfs  # noqa: E402
from rsx.core import sym_int, assume, choose, PathAbort, Unsupported  # noqa: E402
from rsx.symstr import sym_str, tosym, concretize  # noqa: E402
from rope.base import project as rproject, change, exceptions, taskhandle  # noqa: E402

PROPERTY = "C10"
INSTANCE_SECONDS = {"quick": 900, "thorough": 3000}
EXPLANATION = (
    "One step from an arbitrary valid state: the kind (absent/file/dir) and content of every path of a small universe are "
    "z3 variables constrained only by the tree invariant; a composite of m sub-changes whose kinds and targets are "
    "solver-split integers is first performed fault-free by rope itself (paths where that raises are dropped: 'valid in "
    "sequence' is rope's own judgement), the state is reset, and the composite is performed again with exactly one fault "
    "(an OSError raised by the k-th mutating file-system primitive before it takes effect, k symbolic) or with a task "
    "stop at the k-th TaskHandle notification; the same for history.undo of a performed composite. z3 decides that no "
    "model of the path condition has a post-state different from the pre-state; undo/redo lists must be unchanged and "
    "the exception must be the injected one, a RopeError or InterruptedTaskError."
)
ASSUMPTIONS = [
    "A5: exactly one injected fault, in the forward execution; a fault is an OSError raised by a mutating primitive (open for write, mkdir, remove, rmtree, move) before it takes effect",
    "A8: the model file system implements POSIX semantics for the calls rope makes; *.py names are never directories",
    "A10: automatic_soa=False, ropefolder=None",
    "valid composite = rope's own fault-free run succeeds on the pre-state and no move lands on an existing file (such a move destroys the destination and has no inverse)",
    "file contents are one symbolic lower-case letter (content identity is all that matters for restoration)",
]
OUTSIDE = "composites longer than m, universes larger than stated, a second fault during rollback, faults after a partial write"
BOUNDS = {
    "quick": {"m": 3, "files": ["a.py", "b.py", "d/c.py", "d/n.py"], "dirs": ["d"]},
    "thorough": {"m": 3, "files": ["a.py", "b.py", "n.py", "d/c.py", "d/n.py", "d/e/x.py"], "dirs": ["d", "d/e"]},
}
STUBS = ["os/shutil/open of rope.base.{project,change,resources,resourceobserver,fscommands,...} -> rsx.mfs model file system"]
ROOT = "/rsx-mfs-root"

KINDS = ["edit", "mkfile", "mkdir", "move", "remove"]
AUX = "zz_redo.py"


def instances(tier):
    b = BOUNDS[tier]
    out = []
    for mode in ("do-fault", "do-stop", "undo-fault", "undo-stop"):
        for m in range(1, b["m"] + 1):
            if m < 3:
                out.append(("%s.m%d" % (mode, m), dict(mode=mode, m=m, first=None, tier=tier)))
            else:
                quick_kinds = [KINDS.index(x) for x in ("edit", "mkfile", "mkdir", "move")]
                for k0 in range(len(KINDS)):
                    for k1 in range(len(KINDS)):
                        if tier == "quick" and (mode != "do-fault" or k0 not in quick_kinds or k1 not in quick_kinds):
                            continue
                        if tier == "thorough" and mode in ("do-stop", "undo-fault"):
                            continue  # three sub-changes: the full 5x5 grid for fault-in-do, 4x4 for stop-in-undo; the other two modes stay at two
                        if tier == "thorough" and mode == "undo-stop" and (k0 not in quick_kinds or k1 not in quick_kinds):
                            continue
                        if tier == "thorough" and KINDS[k0] == "move" and KINDS[k1] == "move":
                            continue  # two moves first over the six-file universe: > 50 min per instance; covered at m = 2 and, over the small universe, by the quick tier
                        out.append(("%s.m%d.%s.%s" % (mode, m, KINDS[k0], KINDS[k1]), dict(mode=mode, m=m, first=[k0, k1], tier=tier)))
    return out


def build_composite(proj, fs, m, first, FILES, DIRS):
    """choose the sub-changes one by one; each is performed fault-free as soon as it is chosen so
    that a composite that is not valid in sequence on this pre-state is dropped at its first
    invalid step (same validity notion as performing the whole composite, evaluated eagerly)"""
    cs = change.ChangeSet("composite")
    desc = []
    for i in range(m):
        if i:
            try:
                cs.changes[-1].do()
            except (PathAbort, Unsupported):
                raise
            except Exception:
                raise PathAbort("composite not valid on this pre-state")
            if fs.overwrites:
                raise PathAbort("a move overwrote an existing file")
        kind = first[i] if first is not None and i < len(first) else choose("op%d" % i, len(KINDS))
        kn = KINDS[kind]
        if kn == "edit":
            f = FILES[choose("t%d" % i, len(FILES))]
            new = sym_str("new%d" % i, 1, ranges=((97, 122),))
            cs.add_change(change.ChangeContents(proj.get_file(f), new))
            desc.append(["edit", f, new])
        elif kn == "mkfile":
            f = FILES[choose("t%d" % i, len(FILES))]
            cs.add_change(change.CreateResource(proj.get_file(f)))
            desc.append(["mkfile", f])
        elif kn == "mkdir":
            d = DIRS[choose("t%d" % i, len(DIRS))]
            cs.add_change(change.CreateResource(proj.get_folder(d)))
            desc.append(["mkdir", d])
        elif kn == "move":
            a = FILES[choose("t%d" % i, len(FILES))]
            b = FILES[choose("u%d" % i, len(FILES))]
            if a == b:
                raise PathAbort()
            cs.add_change(change.MoveResource(proj.get_file(a), b, exact=True))
            desc.append(["move", a, b])
        else:
            f = FILES[choose("t%d" % i, len(FILES))]
            cs.add_change(change.RemoveResource(proj.get_file(f)))
            desc.append(["remove", f])
    return cs, desc


def _reset_changes(cs):
    for c in cs.changes:
        if isinstance(c, change.ChangeContents):
            c.old_contents = None
        elif isinstance(c, change.ChangeSet):
            _reset_changes(c)


class Stopper:
    """observer that stops the task at its n-th notification"""

    def __init__(self, handle, n):
        self.handle, self.n, self.calls = handle, n, 0

    def __call__(self):
        self.calls += 1
        if bool(self.n == self.calls):
            self.handle.stop()


def make_run(p):
    b = BOUNDS[p["tier"]]
    FILES, DIRS = b["files"], b["dirs"]
    mode, m = p["mode"], p["m"]

    FILES = FILES + [AUX]

    def run():
        E = core.ENGINE
        fs = mfs.MFS(ROOT, FILES, DIRS)
        fs.init_symbolic()
        undo_shims = mfs.install(fs)
        try:
            proj = rproject.Project(ROOT, ropefolder=None, automatic_soa=False)
            # a non-empty redo list (and undo list) before the call under test: create + undo a
            # dedicated file that is otherwise outside the composites' targets
            core.assume(fs.kind[AUX] == mfs.ABSENT)
            proj.do(change.CreateResource(proj.get_file(AUX)))
            proj.history.undo()
            fs.ticks = 0
            pre = fs.snapshot()
            cs, desc = build_composite(proj, fs, m, p["first"], [f_ for f_ in FILES if f_ != AUX], DIRS)
            fs.restore(pre)
            fs.ticks = 0
            _reset_changes(cs)
            redo_saved = list(proj.history.redo_list)
            # validity: rope's own fault-free run of the composite must succeed on this pre-state
            try:
                proj.do(cs)
            except (PathAbort, Unsupported):
                raise
            except Exception:
                raise PathAbort("composite not valid on this pre-state")
            if fs.overwrites:
                raise PathAbort("a move overwrote an existing file: not an invertible composite")
            nticks = fs.ticks
            post_ok = fs.snapshot()
            if mode.startswith("do"):
                fs.restore(pre)
                _reset_changes(cs)
                del proj.history.undo_list[-1:]  # forget the validity run, keep everything older
                proj.history.redo_list[:] = redo_saved  # (the successful validity run cleared redo)
                base = pre
                undo_before = list(proj.history.undo_list)
                redo_before = list(proj.history.redo_list)
                call = lambda th: proj.do(cs, task_handle=th)  # noqa: E731
            else:
                base = post_ok
                undo_before = list(proj.history.undo_list)
                redo_before = list(proj.history.redo_list)
                call = lambda th: proj.history.undo(task_handle=th)  # noqa: E731
            fs.ticks = 0
            fs.log = []
            th = taskhandle.DEFAULT_TASK_HANDLE
            if mode.endswith("fault"):
                fault = sym_int("fault", 1, max(nticks, 1))
                fs.fault_at = fault
                k_in = fault
            else:
                th = taskhandle.TaskHandle("t")
                stop = sym_int("stop", 1, 2 * m + 2)
                th.add_observer(Stopper(th, stop))
                k_in = stop
            try:
                call(th)
                return h.sample(pre=_cstate(fs, base), ops=desc, mode=mode)
            except (PathAbort, Unsupported):
                raise
            except BaseException as e:
                exc = e
            fs.fault_at = None
            problems = []
            removal_before = _has_removal(desc)
            d = fs.differs(base)
            mdl = E.can_be(d)
            if mdl is not None:
                return h.fail("not_restored", "after the failed %s the tree differs from the tree before the call (%s raised)" % (mode, type(exc).__name__),
                              model=mdl, pre=_cstate_m(fs, base, mdl), pre0=_cstate_m(fs, pre, mdl), post=_cstate_m(fs, fs.snapshot(), mdl), ops=desc, mode=mode, k=k_in, exc=type(exc).__name__, removal=removal_before)
            if list(proj.history.undo_list) != undo_before or list(proj.history.redo_list) != redo_before:
                return h.fail("history_changed", "undo/redo lists changed by a failed %s" % mode, pre=_cstate(fs, base), pre0=_cstate(fs, pre), ops=desc, mode=mode, k=k_in, exc=type(exc).__name__, removal=removal_before)
            if not isinstance(exc, (mfs.Injected, exceptions.RopeError)):
                return h.fail("error_masked", "the failed %s reported %s instead of the injected error / a rope error" % (mode, type(exc).__name__),
                              pre=_cstate(fs, base), pre0=_cstate(fs, pre), ops=desc, mode=mode, k=k_in, exc=type(exc).__name__, removal=removal_before)
            return None
        finally:
            undo_shims()

    return run


def _has_removal(desc):
    return any(d[0] == "remove" for d in desc)


def _cstate(fs, snap):
    m = core.ENGINE.fresh_model()
    return _cstate_m(fs, snap, m)


def _cstate_m(fs, snap, m):
    st = fs.concrete(m, snap)
    return {p: (None if v is None else v.decode("latin-1")) for p, v in st.items()}


def run_instance(name, params, seconds):
    return h.explore_instance(make_run(params), seconds)
