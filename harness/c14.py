"""C14 — rope's view of source text agrees with Python's tokenizer (DESIGN.md §5 C14).

Pattern A kernels: the real simplify.ignored_regions / real_code, codeanalyze.SourceLinesAdapter,
custom_generator / CachingLogicalLineFinder and worder._RealFinder run on symbolic text."""
import itertools
import warnings

warnings.simplefilter("ignore")
from rsx import shims

shims.boot()
from rsx import core, h  # noqa: E402
from rsx.core import sym_int, assume, mkbool, PathAbort, choose  # noqa: E402
from rsx import symstr as S  # noqa: E402
from rsx.symstr import sym_str, tosym, SymStr, concretize  # noqa: E402
from oracles import reflex, toklex  # noqa: E402
from rope.base import simplify, codeanalyze  # noqa: E402
from rope.base.worder import _RealFinder, Worder  # noqa: E402

PROPERTY = "C14"
INSTANCE_SECONDS = {"quick": 900, "thorough": 3000}
EXPLANATION = (
    "Kernels: (regions) ignored_regions/real_code on texts over a finite hostile alphabet and on literal frames with "
    "fully symbolic bodies, against the reference lexer `reflex` executed in the same path and cross-checked with "
    "tokenize at witnesses; (lines) SourceLinesAdapter inverse laws on free symbolic ASCII text with symbolic offset/line; "
    "(logical) custom_generator and CachingLogicalLineFinder.logical_line_in against reflex logical lines; "
    "(word) worder word range on free symbolic text; (primary) get_primary_range on attribute-chain skeletons with "
    "symbolic identifier spellings and symbolic offset."
)
ASSUMPTIONS = [
    "A1: symbolic characters are ASCII (< 128) or drawn from the finite alphabet stated per instance",
    "reported counterexamples must lex with tokenize and compile(); text that does not is outside the premise 'valid source text'",
    "f-string replacement fields ({...}) are not generated; CR line endings not generated in the regions kernels",
    "A12: z3 is correct on QF_LIA; unknown is never read as unsat",
]
OUTSIDE = "texts longer than the stated L; characters outside the stated alphabets in the finite-alphabet kernels; LogicalLineFinder (C tokenizer on fully symbolic text) is exercised only through Pattern B runs"
BOUNDS = {
    "quick": {"free_text_L": 5, "frame_body_L": 6, "fstring_body_L": 3, "frame2_L": 2, "lines_L": 8, "logical_L": 5, "word_L": 7},
    "thorough": {"free_text_L": 6, "frame_body_L": 8, "fstring_body_L": 5, "frame2_L": 3, "lines_L": 10, "logical_L": 7, "word_L": 9},
}
SIGMA = "'\"#\\\n()rbfx ,"   # finite alphabet of the free-text kernels
SIGMA_LOGICAL = "'\"#\\\n()[x "
STUBS = ["rope.base.utils.cached -> identity (cross-path memo)", "re -> rsx.symre (validated against re on rope's live patterns)"]


def _sigma_str(name, L, sigma):
    s = sym_str(name, L, ranges=[(ord(c), ord(c)) for c in sorted(set(sigma))])
    return s


def instances(tier):
    b = BOUNDS[tier]
    out = []
    # free text over SIGMA, sharded by the first two characters
    for L in range(0, b["free_text_L"] + 1):
        if L < 2:
            out.append(("regions.free.L%d" % L, dict(L=L, head="")))
        else:
            for a in SIGMA:
                for c in (SIGMA if L >= 5 else [None]):
                    out.append(("regions.free.L%d.%r%s" % (L, a, "" if c is None else repr(c)), dict(L=L, head=a + (c or ""))))
    # literal frames, full-ASCII symbolic bodies
    # thorough: every spelling the language accepts; quick: one of each kind, both orders of the raw f-string
    all_prefixes = ["", "r", "R", "u", "U", "b", "B", "f", "F", "br", "bR", "Br", "BR", "rb", "rB", "Rb", "RB", "fr", "fR", "Fr", "FR", "rf", "rF", "Rf", "RF"]
    prefixes = all_prefixes if tier == "thorough" else ["", "r", "b", "f", "Rb", "u", "rf", "Fr"]
    for L in range(0, b["frame_body_L"] + 1):
        # every spelling for short bodies; for the long ones one spelling of each kind (the body scan does not depend on the case / order of the prefix letters)
        for p in (prefixes if (tier != "thorough" or L <= 4) else ["", "r", "b", "f", "u", "Rb", "bR", "fr", "rf", "F"]):
            for q in ("'", '"', "'''", '"""'):
                if "f" in p.lower() and L > b["fstring_body_L"]:
                    continue  # rope scans kept-verbatim f-string bodies char by char (6 classes per char)
                out.append(("regions.literal.%s%s.L%d" % (p, q, L), dict(L=L, prefix=p, q=q)))
    for L in range(0, b["frame2_L"] + 1):
        for L2 in range(0, b["frame2_L"] + 1):
            out.append(("regions.lit+comment.L%d.%d" % (L, L2), dict(L=L, L2=L2, frame="litcomment")))
            out.append(("regions.comment+lit.L%d.%d" % (L, L2), dict(L=L, L2=L2, frame="commentlit")))
            if L + L2 <= b["frame2_L"] + 1:
                out.append(("regions.bracket.L%d.%d" % (L, L2), dict(L=L, L2=L2, frame="bracket")))
                out.append(("regions.adjacent.L%d.%d" % (L, L2), dict(L=L, L2=L2, frame="adjacent")))
    # names inside the replacement fields of f-strings are code (tokenize reports NAME tokens there);
    # the same text inside any other literal is not: every prefix spelling, both quote styles
    for p in (all_prefixes if tier == "thorough" else ["f", "rf", "Fr", "r", "b", ""]):
        for q in ("'", '"""'):
            out.append(("ffield.%s%s" % (p, q), dict(prefix=p, q=q, nameL=2 if tier == "thorough" else 1)))
    for L in range(0, b["lines_L"] + 1):
        out.append(("lines.L%d" % L, dict(L=L)))
    for L in range(0, b["logical_L"] + 1):
        if L < 3:
            out.append(("logical.L%d" % L, dict(L=L, head="")))
        else:
            for a in SIGMA_LOGICAL:
                for c in (SIGMA_LOGICAL if L >= 5 else [""]):
                    out.append(("logical.L%d.%r" % (L, a + c), dict(L=L, head=a + c)))
    for L in range(1, b["word_L"] + 1):
        for off in range(L):
            out.append(("word.L%d.o%d" % (L, off), dict(L=L, off=off)))
    for k, sk in enumerate(PRIMARY_SKELETONS):
        out.append(("primary.%d" % k, dict(k=k, nlen=1)))
        if tier == "thorough":
            out.append(("primary.%d.len2" % k, dict(k=k, nlen=2)))
    return out


# ---------------------------------------------------------------------------------------------
def _regions_check(text, want_valid_parse=True):
    """compare rope's regions and real_code with reflex on (symbolic) text; returns Fail/None"""
    try:
        toks, _ = reflex.lex(text)
    except reflex.LexInvalid:
        raise PathAbort("lexically invalid")
    exp = [(a, b) for _, a, b in toks]
    regs = simplify.ignored_regions(text)
    got = [(a, b) for a, b, g in regs]
    if got != exp:
        return _confirm("regions", text, "ignored_regions=%s tokenizer=%s" % (got, exp))
    rc = simplify.real_code(text)
    if len(rc) != len(text):
        return _confirm("real_code_len", text, "len(real_code)=%d len(text)=%d" % (len(rc), len(text)))
    rcs = tosym(rc).cs
    tcs = tosym(text).cs
    inside = [False] * len(tcs)
    kinds = {}
    for kind, a, b in toks:
        for i in range(a, b):
            inside[i] = True
            kinds[i] = (kind, a, b)
    # outside the regions every character is unchanged, or it is one of the characters the
    # simplification documents as substituted (tab, semicolon, newline, backslash of a continuation)
    # and has been replaced by whitespace.  (Whether a newline is replaced only inside brackets is
    # NOT demanded: the property allows any whitespace substitution.)
    conds = []
    for i, (t, r) in enumerate(zip(tcs, rcs)):
        if inside[i]:
            continue
        same = S._ceq(t, r)
        subst = S._and([S._or([S._ceq(t, 9), S._ceq(t, 59), S._ceq(t, 10), S._ceq(t, 92)]), S._or([S._ceq(r, 32), S._ceq(r, 10)])])
        conds.append(S._or([same, subst]))
    c = S._and(conds)
    f = h.require(mkbool(c) if not isinstance(c, bool) else c, "real_code_chars", "real_code differs outside string/comment regions")
    if f is not None:
        return _confirm("real_code_chars", text, f["detail"])
    return h.sample(text=text)


def _confirm(kind, text, detail, tries=12):
    """the path fails; find a witness that tokenizes and compiles (premise: valid source text)"""
    E = core.ENGINE
    E.solver.push()
    try:
        for _ in range(tries):
            if E._check() != core.z3.sat:
                return None
            m = E.solver.model()
            w = concretize(text, m)
            try:
                toklex.string_comment_spans(w)
                compile(w, "<w>", "exec")
                return h.fail(kind, detail, model=m, text=text)
            except (toklex.TokInvalid, SyntaxError, ValueError):
                pass
            E.solver.add(core.z3.Not(tosym(text)._eqc(w)))
        return None  # only non-parsing members seen: outside the premise
    finally:
        E.solver.pop()


def _validate_reflex(text, kind="reflex_vs_tokenize"):
    """oracle self-check at the witness: reflex == tokenize (else the harness is wrong)"""
    m = core.ENGINE.fresh_model()
    w = concretize(text, m)
    try:
        real = toklex.string_comment_spans(w)
    except toklex.TokInvalid:
        return None
    try:
        import warnings as _w

        with _w.catch_warnings():
            _w.simplefilter("ignore")
            compile(w, "<w>", "exec")
    except (SyntaxError, ValueError):
        return None  # not a module: outside the premise (e.g. a number glued to a string prefix, "9r'..'")
    toks, _ = reflex.lex(w)
    if [(a, b) for _, a, b in toks] != [(a, b) for _, a, b in real]:
        raise core.Unsupported("reflex disagrees with tokenize on %r: %s vs %s" % (w, toks, real))


def run_regions_free(p):
    L, head = p["L"], p["head"]

    def run():
        body = _sigma_str("t", L - len(head), SIGMA)
        text = tosym(head + "") + body if head else body
        text = tosym(tosym(text) + "\n") if L else "\n"
        r = _regions_check(text)
        if core.ENGINE.stats["paths"] % 7 == 0:
            _validate_reflex(text)
        return r

    return run


def run_regions_literal(p):
    L, prefix, q = p["L"], p["prefix"], p["q"]

    def run():
        body = sym_str("b", L)
        if "f" in prefix.lower() and L:
            assume(mkbool(S._and([S._not(S._or([S._ceq(c, 123), S._ceq(c, 125)])) for c in tosym(body).cs])))
        if L:
            assume(mkbool(S._and([S._not(S._ceq(c, 13)) for c in tosym(body).cs])))
            assume(mkbool(S._and([S._not(S._ceq(c, 0)) for c in tosym(body).cs])))
        text = tosym("x = " + prefix + q) + body + q + "\n"
        # the literal must close exactly at its closing quote (cheap early-abort scan, then reflex)
        if L and not _closes_exactly(tosym(body), q):
            raise PathAbort("body escapes its literal")
        try:
            toks, _ = reflex.lex(text)
        except reflex.LexInvalid:
            raise PathAbort()
        if [(a, b) for _, a, b in toks] != [(4, 4 + len(prefix) + 2 * len(q) + L)]:
            raise PathAbort("body escapes its literal")
        r = _regions_check(text)
        if core.ENGINE.stats["paths"] % 5 == 0:
            _validate_reflex(text)
        return r

    return run


def _closes_exactly(body, q):
    """does q+body+q lex as exactly one string token?  (forks; aborts scanning at the first escape)"""
    i = 0
    n = len(body.cs)
    triple = len(q) == 3
    qc = ord(q[0])
    while i < n:
        c = body.cs[i]
        if mkbool(S._ceq(c, 92)):
            if i + 1 >= n:
                return False
            i += 2
            continue
        if mkbool(S._ceq(c, qc)):
            if not triple:
                return False
            if i + 2 <= n - 1 and mkbool(S._ceq(body.cs[i + 1], qc)) and mkbool(S._ceq(body.cs[i + 2], qc)):
                return False
            if i + 1 == n:
                return False
            if i + 2 == n and mkbool(S._ceq(body.cs[i + 1], qc)):
                return False
        if not triple and mkbool(S._ceq(c, 10)):
            return False
        i += 1
    return True


def run_regions_frame(p):
    L, L2, frame = p["L"], p["L2"], p["frame"]

    def noctl(s):
        if len(s):
            assume(mkbool(S._and([S._not(S._or([S._ceq(c, 13), S._ceq(c, 0), S._ceq(c, 12)])) for c in tosym(s).cs])))

    def run():
        if frame in ("bracket", "adjacent"):
            b1 = _sigma_str("b1", L, SIGMA)
            b2 = _sigma_str("b2", L2, SIGMA)
        else:
            b1 = sym_str("b1", L)
            b2 = sym_str("b2", L2)
            noctl(b1)
            noctl(b2)
        if frame == "litcomment":
            text = tosym("x = '") + b1 + "' #" + b2 + "\n"
        elif frame == "commentlit":
            text = tosym("#") + b1 + "\ny = \"" + b2 + "\"\n"
        elif frame == "bracket":
            text = tosym("f(") + b1 + "\n" + b2 + ")\n"
        else:
            text = tosym("x = '") + b1 + "'" + b2 + "\"q\"\n"
        r = _regions_check(text)
        if core.ENGINE.stats["paths"] % 5 == 0:
            _validate_reflex(text)
        return r

    return run


# ---------------------------------------------------------------------------------------------
def run_lines(p):
    L = p["L"]

    def run():
        code = sym_str("code", L)
        sla = codeanalyze.SourceLinesAdapter(code)
        fails = []
        cs = tosym(code).cs
        nl = sum(1 for c in cs if mkbool(S._ceq(c, 10)))  # forks: newline pattern
        if sla.length() != nl + 1:
            return h.fail("lines_length", "length()=%s, newline count+1=%s" % (sla.length(), nl + 1), code=code)
        n = sym_int("lineno", 1, nl + 1)
        ln = n.__index__()
        st = sla.get_line_start(n)
        if not (sla.get_line_number(st) == ln):
            fails.append(h.fail("lines_inverse", "get_line_number(get_line_start(%d))=%s" % (ln, sla.get_line_number(st)), code=code))
        off = sym_int("off", 0, L)
        k = sla.get_line_number(off)
        a, b = sla.get_line_start(k), sla.get_line_end(k)
        f = h.require((a <= off) & (off <= b), "lines_contain", "offset not inside its line [start,end]", code=code, k=k)
        if f:
            fails.append(f)
        line = sla.get_line(n)
        exp = code[sla.get_line_start(n): sla.get_line_end(n)] if L else ""
        if not (line == exp) or tosym(line).find("\n") != -1:
            fails.append(h.fail("lines_get_line", "get_line is not the newline-free slice", code=code))
        return fails or h.sample(code=code)

    return run


def run_logical(p):
    L, head = p["L"], p["head"]

    def run():
        body = _sigma_str("t", L - len(head), SIGMA_LOGICAL)
        text = (tosym(head) + body) if head else body
        text = tosym(text) if L else ""
        try:
            toks, logical = reflex.lex(tosym(text) + "\n" if L else "\n")
        except reflex.LexInvalid:
            raise PathAbort()
        lines = codeanalyze.SourceLinesAdapter(text)
        got = codeanalyze.custom_generator(lines)
        # rope additionally reports comment-only lines and bare continuation lines as logical lines
        # of their own; they contain no statement, so they are neither demanded nor forbidden: only
        # the entries that intersect a tokenizer statement are compared
        got = [r for r in got if any(a <= r[1] and r[0] <= b for a, b in logical)]
        got = [_norm_start(lines, r) for r in got]
        if list(got) != list(logical):
            return _confirm("logical_lines", tosym(text) + "\n" if L else "\n", "custom_generator=%s tokenizer=%s" % (got, logical))
        if logical:
            finder = codeanalyze.CachingLogicalLineFinder(lines)
            n = sym_int("lineno", 1, lines.length()).__index__()
            inside = [r for r in logical if r[0] <= n <= r[1]]
            if inside:
                r = _norm_start(lines, finder.logical_line_in(n))
                if tuple(r) != tuple(inside[0]):
                    return _confirm("logical_line_in", tosym(text) + "\n", "logical_line_in(%d)=%s expected %s" % (n, r, inside[0]))
        if core.ENGINE.stats["paths"] % 5 == 0:
            m = core.ENGINE.fresh_model()
            w = concretize(tosym(text) + "\n" if L else "\n", m)
            try:
                real = toklex.logical_lines(w)
                if real != logical:
                    raise core.Unsupported("reflex logical lines disagree with tokenize on %r: %s vs %s" % (w, logical, real))
            except toklex.TokInvalid:
                pass
        return h.sample(text=text)

    return run


def _norm_start(lines, r):
    """a physical line holding only a backslash continuation belongs to the following logical
    line physically but carries no token; the tokenizer-based oracle starts at the first token, so
    rope's start is moved past such lines before comparing"""
    a, b = r
    while a < b and bool(tosym(lines.get_line(a)).strip() == "\\"):
        a += 1
    return (a, b)


def _comment_only(line):
    t = tosym(line).lstrip()
    return len(t) > 0 and bool(tosym(t)[0] == "#")


def _idc(c):
    return S._or([S._in_ranges(c, S.ASCII_ALNUM), S._ceq(c, 95)])


def run_word(p):
    L, o = p["L"], p["off"]

    def run():
        code = sym_str("code", L)
        cs = tosym(code).cs
        assume(mkbool(_idc(cs[o])))
        f = _RealFinder(code, code)
        s, e = f.get_word_range(o)
        ok = 0 <= s <= o < e <= L
        if ok:
            for i in range(s, e):
                if not mkbool(_idc(cs[i])):
                    ok = False
            if s > 0 and mkbool(_idc(cs[s - 1])):
                ok = False
            if e < L and mkbool(_idc(cs[e])):
                ok = False
        if not ok:
            return h.fail("word_range", "get_word_range(%d)=(%s,%s) is not the maximal identifier run" % (o, s, e), code=code, off=o)
        w = f.get_word_at(o)
        if not (w == code[s:e]):
            return h.fail("word_at", "get_word_at != text[word_range]", code=code, off=o)
        return h.sample(code=code, off=o)

    return run


def run_ffield(p):
    prefix, q, nameL = p["prefix"], p["q"], p["nameL"]
    is_f = "f" in prefix.lower()
    is_b = "b" in prefix.lower()

    def run():
        from rope.base import worder as _worder

        plain = ((32, 32), (48, 57), (65, 90), (97, 122), (46, 46), (44, 44))  # no quote, brace, backslash, newline
        s1 = sym_str("s1", choose("l1", 3), ranges=plain)
        s2 = sym_str("s2", choose("l2", 2), ranges=plain)
        name = sym_str("nm", 1 + choose("ln", nameL), ranges=((97, 122),))
        if len(name) == 2:
            import keyword

            for kw in keyword.kwlist:
                if len(kw) == 2:
                    assume(name != kw)
        head = "x = " + prefix + q
        text = tosym(head) + s1 + "{" + name + "}" + s2 + q + "\n"
        a = len(head) + len(s1) + 1  # offset of the name
        b = a + len(name)
        rc = simplify.real_code(text)
        if len(rc) != len(text):
            return h.fail("real_code_len", "len(real_code) != len(text)", text=text)
        if is_f:
            # the field is code: its characters survive and the word under every offset of it is the name
            if not (rc[a:b] == name):
                return h.fail("ffield_hidden", "real_code blanks the name in the replacement field of an f-string", text=text, a=a, b=b)
            w = _worder.Worder(text)
            for o in range(a, b):
                if not (w.get_word_at(o) == name):
                    return h.fail("ffield_word", "get_word_at(%d) inside a replacement field is not the field's name" % o, text=text, a=a, b=b)
        else:
            # an ordinary literal: none of its characters may be visible as code
            for i in range(len(head), len(text) - len(q) - 1):
                if not (rc[i] == " "):
                    return h.fail("literal_visible", "real_code shows a character of a %s-prefixed literal" % (prefix or "un"), text=text, a=a, b=b)
        return h.sample(text=text)

    return run


PRIMARY_SKELETONS = [
    "x = {0}.{1}.{2}\n",
    "x = {0}({1}).{2}[{3}].{4}\n",
    "x = {0}.\\\n    {1}.{2}\n",
    "x = ({0}.  # c\n    {1}).{2}\n",
    "x = {0}['k'].{1}({2}, {3}.{4})\n",
    "if {0}.{1} and not {2}.{3}:\n    pass\n",
    "x = {0} . {1} . {2}\n",
    "x = [{0}.{1} for {2} in {3}.{4}]\n",
]


from harness.c14_oracle import expected_primary  # noqa: E402


def run_primary(p):
    T = PRIMARY_SKELETONS[p["k"]]
    nlen = p["nlen"]
    import re as _re

    nslots = 1 + max(int(x) for x in _re.findall(r"\{(\d)\}", T))

    def run():
        names = [sym_str("n%d" % i, nlen, ranges=((97, 122),), exclude=("if", "in", "is", "or", "as")) for i in range(nslots)]
        out = SymStr(())
        pos = 0
        slots = []
        for m in _re.finditer(r"\{(\d)\}", T):
            out = tosym(out + T[pos:m.start()])
            slots.append(len(out.cs))
            out = tosym(out + names[int(m.group(1))])
            pos = m.end()
        src = tosym(out + T[pos:])
        which = core.choose("slot", len(slots))
        within = core.choose("within", nlen)
        off = slots[which] + within
        w = Worder(src, True) if False else None
        finder = _RealFinder(simplify.real_code(src), src)
        got = finder.get_primary_range(off)
        m = core.ENGINE.fresh_model()
        csrc = concretize(src, m)
        exp = expected_primary(csrc, off)
        if exp is None or tuple(got) != tuple(exp):
            return h.fail("primary_range", "get_primary_range(%d)=%s expected %s in %r" % (off, got, exp, csrc), model=m, src=src, off=off)
        return h.sample(src=src, off=off)

    return run


def run_instance(name, params, seconds):
    kind = name.split(".")[0] + "." + name.split(".")[1] if name.startswith("regions") else name.split(".")[0]
    if name.startswith("regions.free"):
        run = run_regions_free(params)
    elif name.startswith("regions.literal"):
        run = run_regions_literal(params)
    elif name.startswith("regions."):
        run = run_regions_frame(params)
    elif name.startswith("ffield"):
        run = run_ffield(params)
    elif name.startswith("lines"):
        run = run_lines(params)
    elif name.startswith("logical"):
        run = run_logical(params)
    elif name.startswith("word"):
        run = run_word(params)
    elif name.startswith("primary"):
        run = run_primary(params)
    else:
        raise KeyError(name)
    return h.explore_instance(run, seconds)
