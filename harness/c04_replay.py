"""Replay of C04 counterexamples; adds root-cause tags computed from the concrete program."""
import ast
import re
from harness.bref_replay import replay_with


def tags_of(files, op):
    src = files[op["path"]]
    m = re.compile(r"[A-Za-z_][A-Za-z_0-9]*").match(src, op["offset"])
    # the identifier containing the offset
    s = op["offset"]
    while s > 0 and (src[s - 1].isalnum() or src[s - 1] == "_"):
        s -= 1
    m = re.compile(r"[A-Za-z_][A-Za-z_0-9]*").match(src, s)
    target = m.group(0) if m else None
    tags = set()
    trees = {p: ast.parse(t) for p, t in files.items() if p.endswith(".py")}
    defs = [n for t in trees.values() for n in ast.walk(t) if isinstance(n, (ast.FunctionDef, ast.AsyncFunctionDef)) and n.name == target]
    calls = [n for t in trees.values() for n in ast.walk(t) if isinstance(n, ast.Call) and ((isinstance(n.func, ast.Name) and n.func.id == target) or (isinstance(n.func, ast.Attribute) and n.func.attr == target))]
    if not defs and target:
        # the offset is on a parameter (in the header or in the body): inline-parameter rewrites the
        # calls of that function, so the call-site hazards are the same
        lines = src[: op["offset"]].count("\n") + 1
        for t in trees.values():
            for n in ast.walk(t):
                if isinstance(n, (ast.FunctionDef, ast.AsyncFunctionDef)) and n.lineno <= lines <= n.end_lineno and target in [a.arg for a in n.args.posonlyargs + n.args.args + n.args.kwonlyargs] and t is trees.get(op["path"]):
                    defs = [n]
                    calls = [c for t2 in trees.values() for c in ast.walk(t2) if isinstance(c, ast.Call) and ((isinstance(c.func, ast.Name) and c.func.id == n.name) or (isinstance(c.func, ast.Attribute) and c.func.attr == n.name))]
    if not defs and target:
        # the offset is on the keyword of a call: rope resolves it to that function's parameter
        tree0 = trees.get(op["path"])
        starts = [0]
        for i_, ch in enumerate(src):
            if ch == "\n":
                starts.append(i_ + 1)
        for c in ast.walk(tree0) if tree0 is not None else ():
            if isinstance(c, ast.Call):
                for k in c.keywords:
                    if k.arg == target and starts[k.lineno - 1] + k.col_offset == s:
                        fname = c.func.id if isinstance(c.func, ast.Name) else c.func.attr if isinstance(c.func, ast.Attribute) else None
                        for t in trees.values():
                            for n in ast.walk(t):
                                if isinstance(n, (ast.FunctionDef, ast.AsyncFunctionDef)) and n.name == fname and not defs:
                                    defs = [n]
                                    calls = [c2 for t2 in trees.values() for c2 in ast.walk(t2) if isinstance(c2, ast.Call) and ((isinstance(c2.func, ast.Name) and c2.func.id == fname) or (isinstance(c2.func, ast.Attribute) and c2.func.attr == fname))]
    for d in defs:
        params = [a.arg for a in d.args.posonlyargs + d.args.args + d.args.kwonlyargs]
        stores = {n.id for st in d.body for n in ast.walk(st) if isinstance(n, ast.Name) and isinstance(n.ctx, ast.Store)}
        if stores & set(params):
            tags.add("param-reassigned")
        if d.name in set(params) | stores:
            tags.add("def-name-is-local")
        locals_ = stores - set(params)
        for c in calls:
            argnames = {n.id for a in list(c.args) + [k.value for k in c.keywords] for n in ast.walk(a) if isinstance(n, ast.Name)}
            if isinstance(c.func, ast.Attribute):  # the receiver is the implicit first argument
                argnames |= {n.id for n in ast.walk(c.func.value) if isinstance(n, ast.Name)}
            if argnames & set(params):
                tags.add("arg-mentions-param")
            if argnames & locals_:
                tags.add("arg-mentions-body-local")
            if any(isinstance(a, ast.Call) and a in calls for a in ast.walk(c) if a is not c):
                tags.add("nested-call-of-target")
        outer_names = {n.id for t in trees.values() for st in t.body if not isinstance(st, (ast.FunctionDef, ast.ClassDef)) for n in ast.walk(st) if isinstance(n, ast.Name) and isinstance(n.ctx, ast.Store)}
        if locals_ & outer_names:
            tags.add("body-local-clashes-with-caller-name")
        # cross-module: a global of the defining module that the body reads is imported into the using
        # module, where a name of the same spelling is already bound
        def_mod = next((t for t in trees.values() if any(n is d for n in ast.walk(t))), None)
        if def_mod is not None:
            def_top = {n.id for st in def_mod.body for n in ast.walk(st) if isinstance(n, ast.Name) and isinstance(n.ctx, ast.Store)} | {st.name for st in def_mod.body if isinstance(st, (ast.FunctionDef, ast.ClassDef))}
            body_reads = {n.id for st in d.body for n in ast.walk(st) if isinstance(n, ast.Name) and isinstance(n.ctx, ast.Load)} - set(params) - stores
            for t in trees.values():
                if t is def_mod:
                    continue
                other_top = {n.id for st in t.body for n in ast.walk(st) if isinstance(n, ast.Name) and isinstance(n.ctx, ast.Store)} | {st.name for st in t.body if isinstance(st, (ast.FunctionDef, ast.ClassDef))}
                if body_reads & def_top & other_top:
                    tags.add("body-global-clashes-with-a-name-of-the-using-module")
        # two call sites in one statement: the statement is emitted once per call site
        for t in trees.values():
            for st in ast.walk(t):
                if isinstance(st, ast.stmt) and not isinstance(st, (ast.FunctionDef, ast.AsyncFunctionDef, ast.ClassDef, ast.If, ast.For, ast.While, ast.With, ast.Try)):
                    inside = [c for c in calls if any(n is c for n in ast.walk(st))]
                    if len(inside) > 1:
                        tags.add("several-calls-in-one-statement")
        # values computed for one call site leak into a LATER one: an earlier call binds a defaulted
        # parameter explicitly, a later call leaves it to the default
        is_method = bool(params) and params[0] in ("self", "cls")
        real = params[1:] if is_method else params

        def bound(c):
            got = set(real[: len(c.args)]) | {k.arg for k in c.keywords if k.arg}
            return got

        ordered = sorted(calls, key=lambda c: (c.lineno, c.col_offset))
        for i, ci in enumerate(ordered):
            for cj in ordered[i + 1:]:
                if (bound(ci) - bound(cj)) & set(real):
                    tags.add("several-callsites-keyword-or-default")
    if not defs and target:
        # variable inlining: is an operand of the value re-assigned in the same function / module?
        for t in trees.values():
            for fn in [t] + [n for n in ast.walk(t) if isinstance(n, (ast.FunctionDef, ast.AsyncFunctionDef))]:
                body = fn.body
                assigns = [st for st in ast.walk(fn) if isinstance(st, ast.Assign) and any(isinstance(x, ast.Name) and x.id == target for x in st.targets)]
                for a in assigns:
                    operands = {n.id for n in ast.walk(a.value) if isinstance(n, ast.Name)}
                    later = {n.id for st in ast.walk(fn) if isinstance(st, (ast.Assign, ast.AugAssign)) and getattr(st, "lineno", 0) > a.lineno for n in ast.walk(st) if isinstance(n, ast.Name) and isinstance(n.ctx, ast.Store)}
                    if operands & later:
                        tags.add("operand-reassigned-after-definition")
                    if target in operands:
                        tags.add("self-referential-assignment")
                if len(assigns) > 1:
                    tags.add("assigned-more-than-once")
                if assigns and any(isinstance(st, ast.AugAssign) and isinstance(st.target, ast.Name) and st.target.id == target for st in ast.walk(fn)):
                    tags.add("augmented-assignment-to-the-inlined-variable")
                # the value is pasted without parentheses: an operator expression that becomes an operand
                loose = (ast.BinOp, ast.BoolOp, ast.Compare, ast.UnaryOp, ast.IfExp, ast.Lambda, ast.NamedExpr, ast.Await, ast.Yield, ast.YieldFrom, ast.Starred)
                if any(isinstance(a.value, loose) or (isinstance(a.value, ast.Tuple) and src_has_bare_tuple(files, a)) for a in assigns):
                    for parent in ast.walk(fn):
                        kids = []
                        if isinstance(parent, ast.BinOp):
                            kids = [parent.left, parent.right]
                        elif isinstance(parent, ast.UnaryOp):
                            kids = [parent.operand]
                        elif isinstance(parent, ast.BoolOp):
                            kids = parent.values
                        elif isinstance(parent, ast.Compare):
                            kids = [parent.left] + parent.comparators
                        elif isinstance(parent, (ast.Attribute, ast.Subscript, ast.Starred, ast.Await)):
                            kids = [parent.value]
                        elif isinstance(parent, ast.Call):
                            kids = [parent.func]
                        elif isinstance(parent, ast.IfExp):
                            kids = [parent.test, parent.body, parent.orelse]
                        if any(isinstance(k, ast.Name) and k.id == target and isinstance(k.ctx, ast.Load) for k in kids):
                            tags.add("inlined-operator-expression-becomes-an-operand")
    return sorted(tags)


def src_has_bare_tuple(files, assign):
    """is the assigned tuple written without parentheses?"""
    for t in files.values():
        seg = ast.get_source_segment(t, assign.value)
        if seg is not None and not seg.startswith("("):
            return True
    return False


def _manifestation(sig):
    """how the failure shows: the exception type of the refactored program, 'output' for a silently
    different result, or the verdict (does_not_parse, import_fails, ...).  A root-cause tag explains a
    failure only together with a manifestation it is known to have."""
    import re as _re

    m = _re.search(r":after=([A-Za-z_:]+):behaviour_changed", sig)
    if m:
        return "output" if m.group(1) == "None" else m.group(1)
    for v in ("does_not_parse", "import_fails", "generated_code_does_not_parse", "internal"):
        if ":" + v in sig:
            return v
    return "other"


def replay(f):
    r = replay_with(f, check_imports=True)
    if r.get("reproduced"):
        try:
            how = _manifestation(r["signature"])
            r["signature"] = r["signature"].replace("|", "/") + "".join("|%s@%s" % (t, how) for t in tags_of(f["witness"]["files"], f["witness"]["op"]))
        except Exception as e:  # tagging must never hide a violation
            r["signature"] = r["signature"].replace("|", "/") + "|untagged"
    return r
