"""Replay of C05 counterexamples with root-cause tags computed from the concrete project."""
import ast
import re
from harness.bref_replay import replay_with


def _top_bound(tree):
    out = set()
    for st in tree.body:
        if isinstance(st, (ast.FunctionDef, ast.AsyncFunctionDef, ast.ClassDef)):
            out.add(st.name)
        elif isinstance(st, (ast.Import, ast.ImportFrom)):
            for a in st.names:
                out.add((a.asname or a.name).split(".")[0])
        else:
            for n in ast.walk(st):
                if isinstance(n, ast.Name) and isinstance(n.ctx, ast.Store):
                    out.add(n.id)
    return out


def tags_of(files, op):
    tags = set()
    if op["api"] != "move_global":
        return []
    src = files[op["path"]]
    s = op["offset"]
    m = re.compile(r"[A-Za-z_][A-Za-z_0-9]*").match(src, s)
    target = m.group(0)
    tree = ast.parse(src)
    dest = ast.parse(files[op["dest"]])
    moved = [st for st in tree.body if (isinstance(st, (ast.FunctionDef, ast.ClassDef)) and st.name == target) or
             (isinstance(st, ast.Assign) and any(isinstance(t, ast.Name) and t.id == target for t in st.targets))]
    src_top = _top_bound(tree)
    dest_top = _top_bound(dest)
    if len(moved) > 1 or sum(1 for st in tree.body for n in ast.walk(st) if isinstance(n, ast.Name) and isinstance(n.ctx, ast.Store) and n.id == target and st in tree.body) > 1:
        tags.add("moved-name-bound-more-than-once")
    for st in moved:
        free = {n.id for n in ast.walk(st) if isinstance(n, ast.Name) and isinstance(n.ctx, ast.Load)} & src_top
        if free & dest_top:
            tags.add("free-name-clashes-with-destination-name")
        if target in free and isinstance(st, ast.Assign):
            tags.add("moved-variable-reads-itself")
        if isinstance(st, ast.ClassDef):
            body_bound = {n.id for b in st.body for n in ast.walk(b) if isinstance(n, ast.Name) and isinstance(n.ctx, ast.Store) and b in st.body and not isinstance(b, (ast.FunctionDef,))}
            if body_bound & free:
                tags.add("class-body-name-shadows-a-global-it-reads")
    if target in dest_top:
        tags.add("moved-name-exists-in-destination")
    # the moved code reads a global that stays behind (destination will import it from the source)
    # while code staying behind uses the moved name (source will import the destination): a cycle
    rest_uses_target = any(isinstance(n, ast.Name) and n.id == target and isinstance(n.ctx, ast.Load)
                           for st in tree.body if st not in moved for n in ast.walk(st))
    for st in moved:
        free = {n.id for n in ast.walk(st) if isinstance(n, ast.Name) and isinstance(n.ctx, ast.Load)} & (src_top - {target})
        if free and rest_uses_target:
            tags.add("source-and-destination-import-each-other")
    # the moved code brings the source's imports along - a future statement among them lands after other imports
    if any(isinstance(st, ast.ImportFrom) and st.module == "__future__" for st in tree.body) and dest.body:
        tags.add("source-has-a-future-statement")
    # a client imports the moved name itself under an alias
    src_mod = op["path"][:-3].replace("/", ".")
    for p, t in files.items():
        if p in (op["path"], op["dest"]) or not p.endswith(".py"):
            continue
        for st in ast.walk(ast.parse(t)):
            if isinstance(st, ast.ImportFrom) and (st.module or "").split(".")[-1] == src_mod.split(".")[-1] and any(a.name == target and a.asname and a.asname != target for a in st.names):
                tags.add("client-imports-the-moved-name-under-an-alias")
    # aliases in client modules spelled like other names
    for p, t in files.items():
        if p in (op["path"], op["dest"]) or not p.endswith(".py"):
            continue
        tr = ast.parse(t)
        aliases = [a.asname for st in tr.body if isinstance(st, (ast.Import, ast.ImportFrom)) for a in st.names if a.asname]
        others = _top_bound(tr)
        if any(aliases.count(a) > 1 for a in aliases) or any(a in src_top or a in dest_top for a in aliases):
            tags.add("client-alias-spelled-like-a-moved-or-destination-name")
    return sorted(tags)


def replay(f):
    r = replay_with(f, check_imports=True)
    if r.get("reproduced"):
        try:
            from harness.bref_replay import manifestation

            how = manifestation(r["signature"])
            r["signature"] = r["signature"].replace("|", "/") + "".join("|%s@%s" % (t, how) for t in tags_of(f["witness"]["files"], f["witness"]["op"]))
        except Exception:
            r["signature"] = r["signature"].replace("|", "/") + "|untagged"
    return r
