"""Replay of C09 counterexamples on un-instrumented rope: purity, error discipline, and - on the
concrete project - 'performing touches exactly what was announced'."""
import os
import shutil
import tempfile
from rope.base import project as rproject
import rope.base.exceptions as rex
from harness import c09_common


def replay(f):
    w = f["witness"]
    files, op = w["files"], w["op"]
    parent = tempfile.mkdtemp(prefix="c09replay")
    try:
        root = os.path.join(parent, "proj")
        os.makedirs(root)
        for p, s in files.items():
            full = os.path.join(root, p)
            os.makedirs(os.path.dirname(full), exist_ok=True)
            with open(full, "w") as fh:
                fh.write(s)
        prefs = {}
        if "outside" in w:
            ext = os.path.join(parent, "ext")
            os.makedirs(ext)
            with open(os.path.join(ext, "outside.py"), "w") as fh:
                fh.write(w["outside"])
            os.makedirs(os.path.join(parent, "sibling"))
            with open(os.path.join(parent, "sibling", "keep.py"), "w") as fh:
                fh.write("keep = 1\n")
            prefs = dict(python_path=[ext], ignored_resources=["ignored_mod.py", "*.pyc"])
        proj = rproject.Project(root, ropefolder=None, **prefs)
        before_all = c09_common.snapshot(parent)
        try:
            changes = c09_common.perform(proj, op)
        except rex.RopeError as e:
            changes = None
            if c09_common.snapshot(parent) != before_all:
                return dict(reproduced=True, signature="c09:impure:%s" % op["api"], detail="%s refused but modified the disk" % op)
            return dict(reproduced=False, signature="", detail="refused with %s" % type(e).__name__)
        except Exception as e:
            return dict(reproduced=True, signature="c09:%s:%s:internal:%s" % (w["skeleton"], op["api"], type(e).__name__), detail="%s on %r raised %s: %s" % (op, files, type(e).__name__, e))
        if c09_common.snapshot(parent) != before_all:
            return dict(reproduced=True, signature="c09:impure:%s" % op["api"], detail="computing %s modified the disk" % op)
        if changes is None or not hasattr(changes, "get_changed_resources"):
            return dict(reproduced=False, signature="", detail="no change object")
        announced = {r.path for r in changes.get_changed_resources() if r is not None}
        desc = changes.get_description()
        proj.do(changes)
        after_all = c09_common.snapshot(parent)
        touched = {k for k in set(before_all) | set(after_all) if before_all.get(k) != after_all.get(k)}
        outside = sorted(k for k in touched if not k.startswith("proj/"))
        inside = {k[len("proj/"):].rstrip("/") for k in touched if k.startswith("proj/")}
        proj.close()
        if outside:
            return dict(reproduced=True, signature="c09:outside_root:%s" % op["api"], detail="%s touched %s outside the project root" % (op, outside))
        if "ignored_mod.py" in inside:
            return dict(reproduced=True, signature="c09:touches_ignored:%s" % op["api"], detail="%s modified the ignored resource" % op)
        if op.get("resources") is not None and not (inside | announced) <= set(op["resources"]):
            return dict(reproduced=True, signature="c09:outside_resources:%s" % op["api"], detail="%s announced %s and wrote %s although restricted to resources=%s" % (op, sorted(announced), sorted(inside), op["resources"]))
        extra = sorted(x for x in inside if x not in announced and not any(a.startswith(x + "/") for a in announced))
        if extra:
            return dict(reproduced=True, signature="c09:unannounced:%s" % op["api"], detail="%s wrote %s, announced only %s" % (op, extra, sorted(announced)))
        return dict(reproduced=False, signature="", detail="contained")
    finally:
        shutil.rmtree(parent, ignore_errors=True)
