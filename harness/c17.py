"""C17 — the remaining class-level refactorings preserve behaviour or are refused (DESIGN.md §5 C17).
Pattern B: EncapsulateField, IntroduceFactory, MethodObject, LocalToField, UseFunction over K17."""
from harness.bcommon import Skeleton
from harness import bref
from harness.bref import fresh_name
from rsx import core, h
from rsx.core import choose

PROPERTY = "C17"
INSTANCE_SECONDS = {"quick": 900, "thorough": 3600}
EXPLANATION = (
    "Corpus K17: a class with a field read, written and augmented-written inside and outside the class and from a "
    "second module; a class constructed in several places; a function with locals; a method with a local; a function "
    "whose body also occurs elsewhere. Identifier spellings (field vs local vs parameter vs generated getter/setter / "
    "factory / class names) are symbolic; the refactoring and its options are solver-split. Each result is a refusal or "
    "must parse, keep every module importable and print the same output."
)
ASSUMPTIONS = ["A2-A4; generated names (factory, method-object class) are fresh"]
OUTSIDE = "programs outside corpus K17"
BOUNDS = {"quick": {"corpus": "K17"}, "thorough": {"corpus": "K17"}}


def _off(files, path, needle, nth=0, add=0):
    s = files[path]
    i = -1
    for _ in range(nth + 1):
        i = s.index(needle, i + 1)
    return i + add


K17 = [
    (Skeleton("f01_encapsulate_field", {
        "mod.py": "class Kls:\n    def __init__(self, {0}):\n        self.{1} = {0}\n    def bump(self, {2}):\n        self.{1} += {2}\n        return self.{1}\n",
        "main.py": "from mod import Kls\n{3} = Kls(1)\n{3}.{1} = 5\n{3}.{1} += 2\nprint({3}.{1}, {3}.bump(1))\n"}),
     lambda files, names: dict(api="encapsulate_field", path="mod.py", offset=_off(files, "mod.py", "self.", 0, 5))),
    (Skeleton("f02_introduce_factory", {
        "mod.py": "class Kls:\n    def __init__(self, {0}):\n        self.val = {0}\n{1} = Kls(1)\n",
        "main.py": "import mod\nfrom mod import Kls\n{2} = Kls(2)\nprint(mod.{1}.val, {2}.val, mod.Kls(3).val)\n"}),
     lambda files, names: dict(api="introduce_factory", path="mod.py", offset=_off(files, "mod.py", "Kls"), name="create", global_factory=bool(choose("global_factory", 2)))),
    (Skeleton("f03_method_object", {
        "main.py": "{0} = 10\ndef fun({1}, {2}):\n    {3} = {1} + {2}\n    return {3} * {1} + {0}\nprint(fun(1, 2))\n"}),
     lambda files, names: dict(api="method_object", path="main.py", offset=_off(files, "main.py", "fun"), name="FunObject")),
    (Skeleton("f04_local_to_field", {
        "main.py": "class Kls:\n    def __init__(self):\n        self.{0} = 1\n    def meth(self, {1}):\n        {2} = {1} + self.{0}\n        return {2} * 2\nprint(Kls().meth(1))\n"}),
     lambda files, names: dict(api="local_to_field", path="main.py", offset=_off(files, "main.py", "        ", 2, 8))),
    (Skeleton("f05_use_function", {
        "main.py": "def helper({0}):\n    return {0} * 2 + 1\n{1} = 3\n{2} = {1} * 2 + 1\n{3} = 4 * 2 + 1\nprint({2}, {3}, helper(1))\n"}),
     lambda files, names: dict(api="use_function", path="main.py", offset=_off(files, "main.py", "helper"))),
    (Skeleton("f06_encapsulate_two_modules_reads", {
        "mod.py": "class Kls:\n    {0} = 0\n    def __init__(self):\n        self.{0} = 1\n        self.{1} = 2\n    def total(self):\n        return self.{0} + self.{1}\n",
        "main.py": "from mod import Kls\n{2} = Kls()\nprint({2}.{0} + {2}.{1}, {2}.total())\n"}),
     lambda files, names: dict(api="encapsulate_field", path="mod.py", offset=_off(files, "mod.py", "self.", 0, 5))),
    (Skeleton("f07_encapsulate_multiline_writes", {
        "mod.py": "class Kls:\n    def __init__(self, {0}):\n        self.{1} = {0}\n    def reset(self):\n        self.{1} = (\n            0\n        )\n",
        "main.py": "from mod import Kls\n{2} = Kls(5)\n{2}.{1} = (\n    {2}.{1} * 10\n    + 7\n)\nprint({2}.{1})\n{2}.{1} += sum([\n    1,\n    2,\n])\nprint({2}.{1})\n{2}.reset()\nprint({2}.{1})\n"}),
     lambda files, names: dict(api="encapsulate_field", path="mod.py", offset=_off(files, "mod.py", "self.", 0, 5))),
    # method object for a helper nested two levels deep, inside a method that is not the last member of
    # its class (the generated class has to go after the whole enclosing top-level definition)
    (Skeleton("f08_method_object_nested_helper", {
        "main.py": "class Shape:\n    def __init__(self, {0}):\n        self.side = {0}\n    def area(self, {1}):\n        def square({2}):\n            {3} = {2} * {2}\n            return {3}\n        return square(self.side) + {1}\n    def perimeter(self):\n        return 4 * self.side\nprint(Shape(3).area(1), Shape(3).perimeter())\n"}),
     lambda files, names: dict(api="method_object", path="main.py", offset=_off(files, "main.py", "square"), name="FunObject")),
    # the function whose body must not be rewritten ends the file without a newline / is a one-liner
    (Skeleton("f10_use_function_body_at_file_end", {
        "lib.py": "{1} = 3\ndef show({0}): print('v', {0} * 2)\ndef double({0}): return {0} * 2",
        "main.py": "import lib\n{2} = 4\nlib.show({2})\nprint(lib.double({2}), {2} * 2)\n"}),
     lambda files, names: dict(api="use_function", path="lib.py", offset=_off(files, "lib.py", "show" if choose("which", 2) else "double"))),
    # class-level statement after the last method (where does a module-level factory go?); static method local
    (Skeleton("f11_factory_class_with_trailing_attribute", {
        "main.py": "class Kls:\n    def __init__(self, {0}):\n        self.val = {0}\n    {1} = 1\n{2} = Kls(2)\nprint({2}.val, Kls.{1}, {2}.{1})\n"}),
     lambda files, names: dict(api="introduce_factory", path="main.py", offset=_off(files, "main.py", "Kls"), name="create", global_factory=bool(choose("global_factory", 2)))),
    (Skeleton("f12_local_to_field_in_staticmethod", {
        "main.py": "class Kls:\n    @staticmethod\n    def meth({0}):\n        {1} = {0} + 1\n        return {1} * 2\n    def other(self, {0}):\n        {1} = {0} + 2\n        return {1}\nprint(Kls.meth(1), Kls().other(1))\n"}),
     lambda files, names: dict(api="local_to_field", path="main.py", offset=_off(files, "main.py", "        ", 0, 8))),
    # the nested helper reads a variable of the enclosing function (a closure)
    # a write to the field inside a parenthesised / bracketed tuple target, not on the first line of the module
    (Skeleton("f13_encapsulate_paren_tuple_write_second", {
        "mod.py": "class Kls:\n    def __init__(self, {0}):\n        self.{1} = {0}\n    def get(self, {2}):\n        return self.{1} + {2}\n",
        "main.py": "from mod import Kls\n{3} = Kls(1)\n({4}, {3}.{1}) = 3, 4\nprint({3}.{1}, {4}, {3}.get(1))\n"}),
     lambda files, names: dict(api="encapsulate_field", path="mod.py", offset=_off(files, "mod.py", "self.", 0, 5))),
    # a write to the field inside a parenthesised / bracketed tuple target, not on the first line of the module
    (Skeleton("f14_encapsulate_paren_tuple_write_first", {
        "mod.py": "class Kls:\n    def __init__(self, {0}):\n        self.{1} = {0}\n    def get(self, {2}):\n        return self.{1} + {2}\n",
        "main.py": "from mod import Kls\n{3} = Kls(1)\n({3}.{1}, {4}) = 3, 4\nprint({3}.{1}, {4}, {3}.get(1))\n"}),
     lambda files, names: dict(api="encapsulate_field", path="mod.py", offset=_off(files, "mod.py", "self.", 0, 5))),
    # a write to the field inside a parenthesised / bracketed tuple target, not on the first line of the module
    (Skeleton("f15_encapsulate_bracket_tuple_write", {
        "mod.py": "class Kls:\n    def __init__(self, {0}):\n        self.{1} = {0}\n    def get(self, {2}):\n        return self.{1} + {2}\n",
        "main.py": "from mod import Kls\n{3} = Kls(1)\n[{4}, {3}.{1}] = 3, 4\nprint({3}.{1}, {4}, {3}.get(1))\n"}),
     lambda files, names: dict(api="encapsulate_field", path="mod.py", offset=_off(files, "mod.py", "self.", 0, 5))),
    (Skeleton("f09_method_object_closure", {
        "main.py": "def outer({0}):\n    {1} = {0} + 1\n    def helper({2}):\n        return {2} * {1}\n    return helper(2)\nprint(outer(1))\n"}),
     lambda files, names: dict(api="method_object", path="main.py", offset=_off(files, "main.py", "helper"), name="FunObject")),
]


def instances(tier):
    from harness.bcommon import len2_variants

    return [("cls.%s%s" % (s.name, suf), dict(k=k, len2=slot)) for k, (s, _) in enumerate(K17) for suf, slot in len2_variants(s, tier)]


def make_run(p):
    from harness.bcommon import with_len2

    s, opf = K17[p["k"]]
    s = with_len2(s, p.get("len2"))

    def build_op(sk_, names, files, cf):
        return opf(cf, names)

    def run():
        from harness.c17_replay import tags_of

        return bref.run_refactoring(s, build_op, PROPERTY, check_imports=True, extra_reserved=("create", "FunObject"), tagger=tags_of)

    return run


def run_instance(name, params, seconds):
    return h.explore_instance(make_run(params), seconds)
