"""C15: extract rope's view of a module's scopes and compare it with the reference binder.
Plain Python; used by the instrumented harness (names may be proxies, hence `conc`/`sym`) and by
the replay on un-instrumented rope."""
import ast
from harness import c15_oracle
from oracles.pybind import Sc


def _own_names(rscope):
    names = rscope.get_names()
    if rscope.get_kind() is None and rscope.parent is not None:  # comprehension: names = parent's + own
        pn = rscope.parent.get_names()
        return {k: v for k, v in names.items() if not (k in pn and pn[k] is v)}
    return names


def rope_view(mod, conc, oracle, sym=None):
    """walk rope's scope tree next to the oracle tree; returns a plain description"""
    collector, tree = oracle
    sym = sym or (lambda s: s)
    gscope = mod.get_scope()
    builtin_names = gscope.builtin_names
    nlines = mod.lines.length()

    def view(rscope, onode):
        own = _own_names(rscope)
        names = sorted(conc(k) for k in own if not (rscope.parent is None and k in builtin_names and builtin_names[k] is own[k]))
        try:
            defined = sorted(conc(k) for k in rscope.get_defined_names())
        except Exception:
            defined = None
        kids = rscope.get_scopes()
        out = dict(kind=rscope.get_kind() or "Comprehension", start=rscope.get_start(), end=rscope.get_end(), names=names, defined=defined, children=[], lookups={}, nkids=len(kids))
        if onode is not None:
            for name in onode["names_used"]:
                s = sym(name)
                try:
                    pn = rscope.lookup(s)
                except Exception as e:
                    out["lookups"][name] = "raised:" + type(e).__name__
                    continue
                if pn is None:
                    out["lookups"][name] = "unbound"
                    continue
                owner = None
                r = rscope
                depth = 0
                while r is not None:
                    own_r = _own_names(r)
                    if s in own_r and own_r[s] is pn:
                        # a `global` declaration copies the module's PyName into the function's table:
                        # the binding belongs to the outermost scope holding this very object
                        owner = depth
                        if r.parent is None and s in builtin_names and builtin_names[s] is pn:
                            owner = "builtin"
                    r = r.parent
                    depth += 1
                out["lookups"][name] = owner if owner is not None else "foreign"
            ok = onode["children"]
            if len(ok) == len(kids):
                for rk, okid in zip(kids, ok):
                    out["children"].append(view(rk, okid))
            else:
                for rk in kids:
                    out["children"].append(view(rk, None))
        return out

    v = view(gscope, tree)
    holding = {}
    for ln in range(1, nlines + 1):
        try:
            sc = gscope.get_inner_scope_for_line(ln)
            holding[ln] = (sc.get_kind() or "Comprehension", sc.get_start())
        except Exception as e:
            holding[ln] = ("raised:" + type(e).__name__, 0)
    v["holding"] = holding
    return v


def binding_constructs(scope_sc, name):
    """how does Python bind `name` in this scope?  labels for root-cause signatures"""
    node = scope_sc.node
    labels = set()
    if isinstance(node, (ast.FunctionDef, ast.AsyncFunctionDef, ast.Lambda)):
        a = node.args
        if name in [x.arg for x in a.posonlyargs]:
            labels.add("param-posonly")
        if name in [x.arg for x in a.args]:
            labels.add("param")
        if name in [x.arg for x in a.kwonlyargs]:
            labels.add("param-kwonly")
        if (a.vararg and a.vararg.arg == name) or (a.kwarg and a.kwarg.arg == name):
            labels.add("param-star")
    body = node.body if isinstance(node.body, list) else [node.body]

    def targets(t, lab):
        for n in ast.walk(t):
            if isinstance(n, ast.Name) and n.id == name:
                labels.add(lab)

    class V(ast.NodeVisitor):
        def visit_FunctionDef(self, n):
            if n.name == name:
                labels.add("def")

        visit_AsyncFunctionDef = visit_FunctionDef

        def visit_ClassDef(self, n):
            if n.name == name:
                labels.add("class")

        def visit_Lambda(self, n):
            pass

        def visit_Assign(self, n):
            for t in n.targets:
                targets(t, "assign")
            self.generic_visit(n)

        def visit_AnnAssign(self, n):
            targets(n.target, "annassign")
            self.generic_visit(n)

        def visit_AugAssign(self, n):
            targets(n.target, "augassign")
            self.generic_visit(n)

        def visit_For(self, n):
            targets(n.target, "for")
            self.generic_visit(n)

        visit_AsyncFor = visit_For

        def visit_With(self, n):
            for it in n.items:
                if it.optional_vars is not None:
                    targets(it.optional_vars, "with")
            self.generic_visit(n)

        visit_AsyncWith = visit_With

        def visit_ExceptHandler(self, n):
            if n.name == name:
                labels.add("except")
            self.generic_visit(n)

        def visit_NamedExpr(self, n):
            if n.target.id == name:
                labels.add("walrus")
            self.generic_visit(n)

        def visit_Import(self, n):
            for a in n.names:
                if (a.asname or a.name.split(".")[0]) == name:
                    labels.add("import")

        def visit_ImportFrom(self, n):
            for a in n.names:
                if (a.asname or a.name) == name:
                    labels.add("import")

        def visit_MatchAs(self, n):
            if n.name == name:
                labels.add("match")
            self.generic_visit(n)

        def visit_MatchStar(self, n):
            if n.name == name:
                labels.add("match")

        def visit_MatchMapping(self, n):
            if n.rest == name:
                labels.add("match")
            self.generic_visit(n)

        def visit_ListComp(self, n):
            # only the first iterable and walrus targets belong to this scope
            for sub in ast.walk(n):
                if isinstance(sub, ast.NamedExpr) and sub.target.id == name:
                    labels.add("walrus-in-comp")

        visit_SetComp = visit_DictComp = visit_GeneratorExp = visit_ListComp

    v = V()
    if isinstance(node, (ast.ListComp, ast.SetComp, ast.DictComp, ast.GeneratorExp)):
        for g in node.generators:
            targets(g.target, "comp-target")
    else:
        for st in body:
            v.visit(st)
    return sorted(labels) or ["?"]


def compare(src, rv):
    """list of 'category: detail' discrepancies between rope's view rv and the reference binder"""
    collector, tree = c15_oracle.describe(src)
    problems = []

    def walk(o, r, path):
        here = "%s %s@%d" % (o["kind"], o["name"], o["start"])
        if o["kind"] != r["kind"]:
            problems.append("tree-kind: %s is a %s for rope" % (here, r["kind"]))
            return
        if o["kind"] != "Module":
            if r["start"] != o["start"]:
                problems.append("extent-start: %s starts at line %s for rope" % (here, r["start"]))
            if o["kind"] in ("Function", "Class") and r["end"] != o["end"]:
                problems.append("extent-end: %s ends at line %s, rope says %s" % (here, o["end"], r["end"]))
        sc = o["_sc"]
        rnames = set(r["names"])
        for name in o["bound"]:
            if name not in rnames:
                for lab in binding_constructs(sc, name):
                    if lab == "?" and o["kind"] == "Module":
                        lab = "via-global-decl"
                    problems.append("missing-name[%s]: %s binds %r, not in rope's names %s" % (lab, here, name, sorted(rnames)))
        if r["defined"] is not None and o["kind"] != "Module":
            allowed = set(o["bound"])
            for name in r["defined"]:
                if name not in allowed:
                    if o["kind"] == "Class":
                        continue  # instance attributes assigned through self: rope's documented model
                    lab = "global-declared" if name in o["globals_decl"] else "nonlocal-declared" if name in o["nonlocals"] else "other"
                    problems.append("extra-name[%s]: rope defines %r in %s, Python does not bind it there" % (lab, name, here))
        # lookups
        for name, got in r["lookups"].items():
            own = c15_oracle.owner_of(collector, sc, name)
            if isinstance(own, Sc):
                depth = 0
                s = sc
                while s is not None and s is not own:
                    s = s.parent
                    if s is not None and s.kind == "lambda":
                        continue
                    depth += 1
                exp = depth
                # lambda scopes do not exist for rope: depth counts only non-lambda scopes
            else:
                exp = own
            if sc.kind == "class" and isinstance(own, Sc) and own is sc:
                pass
            if got != exp:
                flags = []
                if name in sc.nonlocals:
                    flags.append("nonlocal")
                if name in sc.globals_decl:
                    flags.append("global")
                labs = binding_constructs(own, name) if isinstance(own, Sc) else [str(own)]
                problems.append("lookup[%s%s]: in %s, %r resolves %s scopes up for Python (%s), rope says %s" % (
                    "+".join(labs), "".join("@" + f for f in flags), here, name, exp, "binding" if isinstance(own, Sc) else own, got))
        if r["nkids"] != len(o["children"]):
            kinds = sorted({c["kind"] for c in o["children"]})
            problems.append("tree-children[%s]: %s has %d inner scopes, rope has %d" % ("+".join(kinds), here, len(o["children"]), r["nkids"]))
        else:
            for oc, rc in zip(o["children"], r["children"]):
                walk(oc, rc, path + [here])

    walk(tree, rv, [])
    # holding scope per line: innermost def/class whose line span contains the line
    lines = src.split("\n")

    def innermost(o, ln):
        for ch in o["children"]:
            if ch["kind"] in ("Function", "Class") and ch["start"] <= ln <= (ch["end"] or ch["start"]):
                return innermost(ch, ln)
        return o

    for ln, got in sorted(rv.get("holding", {}).items()):
        ln = int(ln)
        if ln > len(lines) or not lines[ln - 1].strip() or lines[ln - 1].lstrip().startswith("#"):
            continue  # blank and comment-only lines hold no code: which scope 'holds' them is not defined
        o = innermost(tree, ln)
        exp = (o["kind"], o["start"])
        got = tuple(got)
        if got[0] == "Comprehension":
            continue
        if got != exp:
            problems.append("holding-line: line %d lies in %s@%d, rope says %s@%s" % (ln, exp[0], exp[1], got[0], got[1]))
    return problems
