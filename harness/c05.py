"""C05 — moving/renaming definitions and modules keeps every importer working (DESIGN.md §5 C05).
Pattern B: move.create_move (MoveGlobal / MoveModule / MoveMethod), rename of modules,
topackage.ModuleToPackage over layouts K05."""
from harness.bcommon import Skeleton
from harness import bref
from rsx import core, h
from rsx.core import choose

PROPERTY = "C05"
INSTANCE_SECONDS = {"quick": 900, "thorough": 3600}
EXPLANATION = (
    "Layouts K05 (flat modules, a package, relative imports; clients importing the moved object in plain, dotted, from, "
    "aliased and relative style) with symbolic in-module identifier spellings: the moved code's free names may collide "
    "with names of the destination, imported aliases with locals, and the solver enumerates all such patterns. "
    "MoveGlobal to another module, MoveModule into a package, module rename, module-to-package and MoveMethod; the "
    "result must be a refusal or parse, keep every module importable and print the same output (the entry module "
    "reaches the moved object through every client import style)."
)
ASSUMPTIONS = ["A2-A4; A11: module, package and file names are concrete; the new module name is a fixed fresh name"]
OUTSIDE = "layouts outside K05; identifiers longer than one letter"
BOUNDS = {"quick": {"corpus": "K05"}, "thorough": {"corpus": "K05"}}

K05 = [
    (Skeleton("v01_move_function", {
        "src.py": "import os\n{0} = 1\ndef mover({1}):\n    {2} = {1} + {0}\n    return {2} + len(os.sep)\n",
        "dest.py": "{3} = 5\ndef other():\n    return {3}\n",
        "main.py": "import src\nfrom src import mover\nimport src as {4}\nimport dest\nprint(src.mover(1), mover(2), {4}.mover(3), dest.other())\n"}),
     lambda files: dict(api="move_global", path="src.py", offset=files["src.py"].index("mover"), dest="dest.py")),
    (Skeleton("v02_move_class", {
        "src.py": "{0} = 2\nclass Mover:\n    {1} = {0}\n    def get(self, {2}):\n        return self.{1} + {2} + {0}\ndef user():\n    return Mover().get(1)\n",
        "dest.py": "{3} = 5\n",
        "main.py": "from src import Mover, user\nimport dest\nprint(Mover().get(1), user(), dest.{3})\n"}),
     lambda files: dict(api="move_global", path="src.py", offset=files["src.py"].index("Mover"), dest="dest.py")),
    (Skeleton("v03_move_variable", {
        "src.py": "{0} = 3\n{1} = {0} + 1\ndef user():\n    return {0} * 2\n",
        "dest.py": "{2} = 5\n",
        "main.py": "import src\nimport dest\nprint(src.user(), src.{1}, dest.{2})\n"}),
     lambda files: dict(api="move_global", path="src.py", offset=0, dest="dest.py")),
    (Skeleton("v04_move_module_into_package", {
        "mod.py": "{0} = 1\ndef fun({1}):\n    return {1} + {0}\n",
        "pkg/__init__.py": "",
        "pkg/inner.py": "import mod\ndef use():\n    return mod.fun(1)\n",
        "main.py": "import mod\nfrom mod import fun\nimport mod as {2}\nfrom pkg import inner\nprint(mod.fun(1), fun(2), {2}.fun(3), inner.use())\n"}),
     lambda files: dict(api="move_module", path="mod.py", dest="pkg")),
    (Skeleton("v05_rename_module", {
        "mod.py": "{0} = 1\ndef fun({1}):\n    return {1} + {0}\n",
        "pkg/__init__.py": "",
        "pkg/inner.py": "from mod import fun as {2}\ndef use():\n    return {2}(1)\n",
        "main.py": "import mod\nfrom mod import {0}\nfrom pkg import inner\nprint(mod.fun(1), {0}, inner.use())\n"}),
     lambda files: dict(api="rename", path="mod.py", offset=None, name="renamed")),
    (Skeleton("v06_module_to_package", {
        "mod.py": "import helper\n{0} = helper.val\ndef fun({1}):\n    return {1} + {0}\n",
        "helper.py": "val = 4\n",
        "main.py": "import mod\nfrom mod import fun as {2}\nprint(mod.fun(1), {2}(2))\n"}),
     lambda files: dict(api="to_package", path="mod.py")),
    (Skeleton("v07_move_method", {
        "main.py": "class Helper:\n    def __init__(self):\n        self.{0} = 5\nclass Owner:\n    def __init__(self):\n        self.helper = Helper()\n        self.{1} = 2\n    def work(self, {2}):\n        return self.{1} * {2}\nprint(Owner().work(3))\n"}),
     lambda files: dict(api="move_method", path="main.py", offset=files["main.py"].index("work"), dest_attr="helper", new_name="moved")),
    (Skeleton("v08_move_package_relative", {
        "pkg/__init__.py": "",
        "pkg/aa.py": "{0} = 7\ndef fun():\n    return {0}\n",
        "pkg/bb.py": "from . import aa\nfrom .aa import fun as {1}\ndef use():\n    return aa.fun() + {1}()\n",
        "other/__init__.py": "",
        "main.py": "from pkg import bb\nimport pkg.aa\nprint(bb.use(), pkg.aa.fun())\n"}),
     lambda files: dict(api="move_module", path="pkg/aa.py", dest="other")),
    (Skeleton("v09_move_module_aliased_from_import", {
        "srcpkg/__init__.py": "",
        "srcpkg/gadget.py": "{0} = 4\ndef spin({1}):\n    return {1} * {0}\n",
        "srcpkg/sibling.py": "val = 1\n",
        "dstpkg/__init__.py": "",
        "main.py": "from srcpkg import gadget as {2}\nfrom srcpkg import sibling as {3}, gadget\nimport srcpkg.gadget\nprint({2}.spin(2), {3}.val, gadget.{0}, srcpkg.gadget.spin(1))\n"}),
     lambda files: dict(api="move_module", path="srcpkg/gadget.py", dest="dstpkg")),
    # a client inside a package imports a sibling module relatively whose bare name equals the (top-level)
    # destination module: the import rope adds for the moved name must not be folded into the relative one;
    # the source keeps two relative from-imports of different levels with the same (empty) module name
    (Skeleton("v11_move_function_client_with_relative_sibling", {
        "util.py": "{1} = 5\n",
        "shared.py": "base = 100\n",
        "pkg/__init__.py": "",
        "pkg/util.py": "def helper():\n    return 1\n",
        "pkg/local.py": "inc = 1\n",
        "pkg/sub/__init__.py": "",
        "pkg/sub/src.py": "from . import near\nfrom .. import local\ndef mover({0}):\n    return {0} + local.inc + near.tiny\ndef stays():\n    return local.inc + near.tiny\n",
        "pkg/sub/near.py": "tiny = 10\n",
        "pkg/client.py": "from .util import helper\nfrom .sub.src import mover\ndef use():\n    return mover(helper())\n",
        "main.py": "from pkg import client\nimport util\nfrom pkg.sub import src\nprint(client.use(), util.{1}, src.stays())\n"}),
     lambda files: dict(api="move_global", path="pkg/sub/src.py", offset=files["pkg/sub/src.py"].index("mover"), dest="util.py")),
    # the destination lies two packages deep and a client already imports from the top-level package
    (Skeleton("v12_move_function_into_nested_package", {
        "util.py": "def slug({0}):\n    return {0} + 1\n",
        "app/__init__.py": "VERSION = 1\n", "app/core/__init__.py": "", "app/core/text.py": "{1} = 5\n",
        "client.py": "from app import VERSION\nimport util\ndef use():\n    return util.slug(VERSION)\n",
        "main.py": "import client\nfrom util import slug\nimport app.core.text\nprint(client.use(), slug(1), app.core.text.{1})\n"}),
     lambda files: dict(api="move_global", path="util.py", offset=files["util.py"].index("slug"), dest="app/core/text.py")),
    # a client imports the moved function under an alias; the source has a future statement
    (Skeleton("v13_client_aliases_the_moved_name", {
        "src.py": "def mover({0}):\n    return {0} + 1\ndef stays():\n    return 2\n",
        "dest.py": "{1} = 5\n",
        "main.py": "from src import mover as {2}, stays\nimport dest\nprint({2}(1), stays(), dest.{1})\n"}),
     lambda files: dict(api="move_global", path="src.py", offset=files["src.py"].index("mover"), dest="dest.py")),
    (Skeleton("v14_source_has_a_future_statement", {
        "src.py": "from __future__ import annotations\nimport os\ndef mover({0}: Later) -> int:\n    return len(os.sep) + {0}\nclass Later:\n    pass\n",
        "dest.py": "import sys\n{1} = 5\n",
        "main.py": "from src import mover\nimport dest\nprint(mover(1), dest.{1})\n"}),
     lambda files: dict(api="move_global", path="src.py", offset=files["src.py"].index("mover"), dest="dest.py")),
    # v02 without code left behind that uses the class: no import cycle (KF-C05-source-and-destination-import-each-other
    # makes every partition of v02 fail, so v02 alone cannot tell a second defect about moved classes)
    (Skeleton("v10_move_class_nothing_left_behind_uses_it", {
        "src.py": "{0} = 2\nclass Mover:\n    {1} = {0}\n    def get(self, {2}):\n        return self.{1} + {2} + {0}\n",
        "dest.py": "{3} = 5\n",
        "main.py": "from src import Mover\nimport src\nimport dest\nprint(Mover().get(1), src.Mover().get(2), dest.{3})\n"}),
     lambda files: dict(api="move_global", path="src.py", offset=files["src.py"].index("Mover"), dest="dest.py")),
]


def instances(tier):
    from harness.bcommon import len2_variants

    return [("move.%s%s" % (s.name, suf), dict(k=k, len2=slot)) for k, (s, _) in enumerate(K05) for suf, slot in len2_variants(s, tier)]


def make_run(p):
    from harness.bcommon import with_len2

    s, opf = K05[p["k"]]
    s = with_len2(s, p.get("len2"))

    def build_op(sk_, names, files, cf):
        return opf(cf)

    def run():
        from harness.c05_replay import tags_of

        return bref.run_refactoring(s, build_op, PROPERTY, check_imports=True, tagger=tags_of)

    return run


def run_instance(name, params, seconds):
    return h.explore_instance(make_run(params), seconds)
