"""Replay of C18 counterexamples on un-instrumented rope, real files, real pickle: the crash state
of each data file is reconstructed (old / empty / partial / new); for 'partial' every proper
non-empty prefix of the real new file is tried."""
import itertools
import os
import shutil
import tempfile
from rope.base import project as rproject, change


def _open_and_use(tmp):
    p3 = rproject.Project(tmp, save_history=True, save_objectdb=True, automatic_soa=False)
    descs = [c.description for c in p3.history.undo_list]
    p3.get_pymodule(p3.get_file("a.py")).get_attributes()
    p3.pycore.analyze_module(p3.get_file("a.py"))
    return descs


def replay(f):
    w = f["witness"]
    tmp = tempfile.mkdtemp(prefix="c18replay")
    try:
        with open(os.path.join(tmp, "a.py"), "w") as fh:
            fh.write("def f(p):\n    return p\nx = f(1)\n")
        p1 = rproject.Project(tmp, save_history=True, save_objectdb=True, automatic_soa=False)
        from harness import c18_script

        c18_script.session1(p1, w["nchanges"], w.get("shape", "edits"))
        p1.pycore.analyze_module(p1.get_file("a.py"))
        p1.close()
        old_descs = [c.description for c in p1.history.undo_list]
        old = {}
        for name in w["disk"]:
            path = os.path.join(tmp, name)
            old[name] = open(path, "rb").read() if os.path.exists(path) else None
        p2 = rproject.Project(tmp, save_history=True, save_objectdb=True, automatic_soa=False)
        c18_script.session2(p2, w.get("shape", "edits"))
        p2.close()
        new_descs = [c.description for c in p2.history.undo_list]
        new = {name: open(os.path.join(tmp, name), "rb").read() if os.path.exists(os.path.join(tmp, name)) else None for name in w["disk"]}
        choices = []
        for name, st in sorted(w["disk"].items()):
            if st == "old":
                choices.append([(name, old[name])])
            elif st == "new":
                choices.append([(name, new[name])])
            elif st == "empty":
                choices.append([(name, b"")])
            elif st == "absent":
                choices.append([(name, None)])
            else:
                data = new[name] or b""
                choices.append([(name, data[:k]) for k in range(1, len(data))])
        tried = 0
        for combo in itertools.product(*choices):
            for name, data in combo:
                path = os.path.join(tmp, name)
                if data is None:
                    if os.path.exists(path):
                        os.remove(path)
                else:
                    with open(path, "wb") as fh:
                        fh.write(data)
            tried += 1
            try:
                got = _open_and_use(tmp)
            except BaseException as e:
                cut = {name: (None if data is None else len(data)) for name, data in combo}
                return dict(reproduced=True, signature="cannot_open:%s:%s" % (sorted(w["disk"].items()), type(e).__name__),
                            detail="data files cut to %s bytes (states %s): opening/using the project raised %s: %s" % (cut, w["disk"], type(e).__name__, e))
            if got not in (old_descs, new_descs, []):
                return dict(reproduced=True, signature="history_mixed:%s" % (sorted(w["disk"].items()),), detail="loaded %s" % got)
        return dict(reproduced=False, signature="", detail="%d crash states tried, project always opened" % tried)
    finally:
        shutil.rmtree(tmp, ignore_errors=True)
