"""C12 — close/reopen loses nothing: data serializer kernel + change<->data conversion (DESIGN.md §5 C12)."""
import json
from rsx import shims

shims.boot()
from rsx import core, h  # noqa: E402
from rsx.core import sym_int, assume, mkbool, PathAbort, choose, SymInt  # noqa: E402
from rsx import symstr as S  # noqa: E402
from rsx.symstr import sym_str, tosym, SymStr, concretize  # noqa: E402
from rope.base import serializer  # noqa: E402

PROPERTY = "C12"
INSTANCE_SECONDS = {"quick": 600, "thorough": 3000}
EXPLANATION = (
    "Serializer kernel: every data shape (nesting of tuple/list/dict with str, int, None and tuple keys) up to N nodes is "
    "enumerated; every leaf is symbolic (strings of length 0-2 over digits, '$', letters and the non-ASCII digit U+00B2; "
    "unbounded ints; None) and so is the format version. The real python_to_json/json_to_python run on the proxies; per "
    "path the decoded value must be type-exactly equal to the input and the encoded value JSON-native; at each witness "
    "the real json.dumps/json.loads round trip is executed (lemma A9)."
)
ASSUMPTIONS = [
    "A9: json.loads(json.dumps(x)) == x for JSON-native x (executed with the real json module at every path witness)",
    "A1 (Latin-1): symbolic characters < 256 with exact str.isdigit tables",
    "a ValueError refusal is accepted only for the documented reserved key '$'",
]
OUTSIDE = "shapes with more nodes than N, strings longer than 2, floats (documented as unsupported by the module)"
BOUNDS = {"quick": {"nodes": 5}, "thorough": {"nodes": 6}}

ALPHA = [(36, 36), (48, 57), (97, 99), (0xB2, 0xB2)]


# --- shape enumeration: a shape is a nested tuple description
#   "s" string leaf, "i" int leaf, "n" None, ("t", [..]) tuple, ("l", [..]) list, ("d", [(key, value)..])
def shapes(n, as_key=False):
    """all shapes with exactly n nodes (keys restricted to hashable shapes)"""
    if n == 1:
        yield "s"
        yield "i"
        yield "n"
        yield ("t", ())
        if not as_key:
            yield ("l", ())
            yield ("d", ())
        return
    for k in (["t"] if as_key else ["t", "l"]):
        for parts in _splits(n - 1, as_key):
            yield (k, parts)
    if not as_key:
        for pairs in _dict_splits(n - 1):
            yield ("d", pairs)


def _splits(n, as_key):
    """sequences of child shapes with n nodes in total"""
    if n == 0:
        yield ()
        return
    for first in range(1, n + 1):
        for a in shapes(first, as_key):
            for rest in _splits(n - first, as_key):
                yield (a,) + rest


def _dict_splits(n):
    if n == 0:
        yield ()
        return
    for kn in range(1, n):
        for k in shapes(kn, as_key=True):
            for vn in range(1, n - kn + 1):
                for v in shapes(vn):
                    for rest in _dict_splits(n - kn - vn):
                        yield ((k, v),) + rest


class Builder:
    def __init__(self, fixed_len=None):
        self.n = 0
        self.fixed_len = fixed_len

    def build(self, sh):
        if sh == "s":
            self.n += 1
            L = self.fixed_len if self.fixed_len is not None else choose("len%d" % self.n, 3)
            return sym_str("s%d" % self.n, L, ranges=ALPHA)
        if sh == "i":
            self.n += 1
            return sym_int("i%d" % self.n)
        if sh == "n":
            return None
        k, parts = sh
        if k == "t":
            return tuple(self.build(p) for p in parts)
        if k == "l":
            return [self.build(p) for p in parts]
        d = {}
        for ks, vs in parts:
            key = self.build(ks)
            val = self.build(vs)
            if key in d:           # forks: symbolic keys may coincide; then the later value wins, as in Python
                pass
            d[key] = val
        return d


def same(a, b):
    """type-exact structural equality decided by forks"""
    if isinstance(a, (str, SymStr)) and isinstance(b, (str, SymStr)):
        return bool(a == b)
    if isinstance(a, bool) or isinstance(b, bool):
        return type(a) is type(b) and a == b
    if isinstance(a, (int, SymInt)) and isinstance(b, (int, SymInt)):
        return bool(a == b)
    if type(a) is not type(b):
        return False
    if isinstance(a, (list, tuple)):
        return len(a) == len(b) and all(same(x, y) for x, y in zip(a, b))
    if isinstance(a, dict):
        if len(a) != len(b):
            return False
        for k, v in a.items():
            found = False
            for k2, v2 in b.items():
                if same(k, k2):
                    found = True
                    if not same(v, v2):
                        return False
                    break
            if not found:
                return False
        return True
    return a is b


def native(o):
    if o is None or isinstance(o, (str, SymStr, int, SymInt)):
        return True
    if isinstance(o, list):
        return all(native(x) for x in o)
    if isinstance(o, dict):
        return all(isinstance(k, (str, SymStr)) and native(v) for k, v in o.items())
    return False


def has_dollar_key(o):
    if isinstance(o, dict):
        for k, v in o.items():
            if isinstance(k, (str, SymStr)) and bool(k == "$"):
                return True
            if has_dollar_key(k) or has_dollar_key(v):
                return True
    elif isinstance(o, (list, tuple)):
        return any(has_dollar_key(x) for x in o)
    return False


def make_run(shape):
    def run():
        ver = choose("ver", 2) + 1
        o = Builder(1 if shape is BIG else None).build(shape)
        try:
            enc = serializer.python_to_json(o, ver)
        except ValueError as e:
            if has_dollar_key(o):
                return None
            return h.fail("refused_supported_value", "python_to_json raised ValueError(%s) on a supported value" % e, value=o, version=ver)
        except (TypeError, AssertionError, KeyError, IndexError) as e:
            return h.fail("encode_raised", "python_to_json raised %s: %s" % (type(e).__name__, e), value=o, version=ver)
        if not native(enc):
            return h.fail("not_json_native", "encoded value is not JSON-native", value=o, version=ver)
        m = core.ENGINE.fresh_model()
        cenc = concretize(enc, m)
        try:
            if json.loads(json.dumps(cenc)) != cenc:
                return h.fail("json_text_roundtrip", "json text round trip changed the encoded value", model=m, value=o, version=ver)
        except (TypeError, ValueError) as e:
            return h.fail("json_text_roundtrip", "json.dumps failed: %s" % e, model=m, value=o, version=ver)
        try:
            dec = serializer.json_to_python(enc)
        except (TypeError, AssertionError, KeyError, IndexError, ValueError) as e:
            return h.fail("decode_raised", "json_to_python raised %s: %s" % (type(e).__name__, e), value=o, version=ver)
        if not same(dec, o):
            return h.fail("roundtrip_mismatch", "decoded value differs from the input", value=o, version=ver)
        return h.sample(value=o, version=ver)

    return run


BIG = ("d", ((("s"), ("l", ("i", ("t", ("s", "n"))))), (("t", ("s", "i")), "s"), ("s", ("d", (("s", ("t", ())), ("i", ("l", ("s",))))))))


def all_shapes(tier):
    out = []
    for n in range(1, BOUNDS[tier]["nodes"] + 1):
        out.extend(shapes(n))
    out.append(BIG)
    return out


def instances(tier):
    shs = all_shapes(tier)
    # group shapes into chunks to amortise process start-up
    chunk = 24
    out = [("ser.%04d" % i, dict(lo=i, hi=min(i + chunk, len(shs) - 1), tier=tier)) for i in range(0, len(shs) - 1, chunk)]
    out.append(("ser.big", dict(lo=len(shs) - 1, hi=len(shs), tier=tier)))
    return out


def run_instance(name, params, seconds):
    shs = all_shapes(params["tier"])[params["lo"]:params["hi"]]
    agg = None
    for sh in shs:
        st = h.explore_instance(make_run(sh), seconds, trace_functions=agg is None)
        for f in st["fails"]:
            f["witness"]["shape"] = repr(sh)
        if agg is None:
            agg = st
        else:
            for k in ("paths", "vacuous", "checks", "decisions", "solver_s", "unsupported", "ok", "failing_paths", "wall_s"):
                agg[k] += st[k]
            agg["exhaustive"] = agg["exhaustive"] and st["exhaustive"]
            agg["fails"].extend(st["fails"])
            agg["samples"] = (agg["samples"] + st["samples"])[:3]
            for k, v in st["unsupported_sites"].items():
                agg["unsupported_sites"][k] = agg["unsupported_sites"].get(k, 0) + v
    agg["shapes"] = len(shs)
    return agg


def extra_evidence(results):
    return {"data_shapes_enumerated": sum(r.get("shapes", 0) for r in results)}


# ---------------------------------------------------------------------------------------------
# history conversion (symbolic) and real close / reopen (at solver-chosen concrete histories)
from rope.base import change as _change, project as _rproject  # noqa: E402
from rsx import mfs as _mfs  # noqa: E402

_ROOT = "/rsx-mfs-root"
_FILES = ["a.py", "b.py", "d/c.py"]


NEST = [True]


def _sym_change(proj, i, depth=0):
    """a solver-chosen change with symbolic contents; returns (change, recipe) - the recipe is a plain
    description from which harness.c12_history_plain rebuilds the same change on un-instrumented rope"""
    kind = choose("hk%d_%d" % (depth, i), 5 if (depth == 0 and NEST[0]) else 4)
    f = _FILES[choose("hf%d_%d" % (depth, i), len(_FILES))]
    if kind == 0:
        new = sym_str("hn%d_%d" % (depth, i), choose("hl%d_%d" % (depth, i), 2), ranges=((10, 10), (36, 36), (49, 49), (0xE9, 0xE9)))
        old = "a" if choose("hh%d_%d" % (depth, i), 2) else None
        return _change.ChangeContents(proj.get_file(f), new, old), ["contents", f, new, old]
    if kind == 1:
        g = _FILES[choose("hg%d_%d" % (depth, i), len(_FILES))]
        return _change.MoveResource(proj.get_file(f), g, exact=True), ["move", f, g]
    if kind == 2:
        # plain CreateResource on a file / on a folder, and the two convenience subclasses
        how = choose("hd%d_%d" % (depth, i), 4)
        if how == 0:
            return _change.CreateResource(proj.get_file(f)), ["create-resource-file", f]
        if how == 1:
            return _change.CreateResource(proj.get_folder("d")), ["create-resource-folder", "d"]
        if how == 2:
            return _change.CreateFolder(proj.root, "d"), ["create-folder", "d"]
        return _change.CreateFile(proj.root, "b.py"), ["create-file", "b.py"]
    if kind == 3:
        return _change.RemoveResource(proj.get_file(f)), ["remove", f]
    desc = sym_str("hdsc%d" % i, 1, ranges=((97, 98),))
    ts = sym_int("ht%d" % i, 0, 10)
    cs = _change.ChangeSet(desc, timestamp=ts)
    subs = []
    for j in range(1 + choose("hcn%d" % i, 2)):
        c, r = _sym_change(proj, 10 * (i + 1) + j, depth + 1)
        cs.add_change(c)
        subs.append(r)
    return cs, ["set", desc, ts, subs]


def _meaning(c):
    """what performing the change would do, independent of how it is stored"""
    if isinstance(c, _change.ChangeSet):
        return ["set", c.description, c.time, [_meaning(x) for x in c.changes]]
    if isinstance(c, _change.ChangeContents):
        return ["contents", c.resource.path, c.resource.is_folder(), c.new_contents, c.old_contents]
    if isinstance(c, _change.MoveResource):
        return ["move", c.resource.path, c.resource.is_folder(), c.new_resource.path, c.new_resource.is_folder()]
    if isinstance(c, _change.CreateResource):
        return ["create", c.resource.path, c.resource.is_folder()]
    if isinstance(c, _change.RemoveResource):
        return ["remove", c.resource.path, c.resource.is_folder()]
    return ["?", type(c).__name__]


def make_history_run(p):
    n = p["n"]

    def run():
        fs = _mfs.MFS(_ROOT, _FILES, ["d"])
        fs.init_concrete({"a.py": b"x\n", "d": None})
        undo = _mfs.install(fs)
        try:
            proj = _rproject.Project(_ROOT, ropefolder=None, automatic_soa=False)
            to_data = _change.ChangeToData()
            NEST[0] = n == 1
            built = [_sym_change(proj, i) for i in range(n)]
            changes = [c for c, _r in built]
            recipe = [r for _c, r in built]
            data = [to_data(c) for c in changes]
            ver = choose("ver", 2) + 1
            try:
                enc = serializer.python_to_json(data, ver)
            except (ValueError, TypeError, AssertionError) as e:
                return h.fail("history_encode_raised", "python_to_json of history data raised %s: %s" % (type(e).__name__, e), value=data, version=ver, recipe=recipe)
            if not native(enc):
                return h.fail("history_not_json_native", "encoded history is not JSON-native", value=data, version=ver, recipe=recipe)
            m = core.ENGINE.fresh_model()
            cenc = concretize(enc, m)
            if json.loads(json.dumps(cenc)) != cenc:
                return h.fail("history_json_text_roundtrip", "json text round trip changed the encoded history", model=m, value=data, version=ver, recipe=recipe)
            dec = serializer.json_to_python(enc)
            back = [_change.DataToChange(proj)(d) for d in dec]
            data2 = [to_data(c) for c in back]
            if not same(data2, data):
                return h.fail("history_roundtrip_mismatch", "ChangeToData -> serializer -> DataToChange -> ChangeToData is not the identity", value=data, version=ver, recipe=recipe)
            for c1, c2 in zip(changes, back):
                if not same(_meaning(c1), _meaning(c2)):
                    return h.fail("history_meaning_changed", "a change read back from the saved history does something else: %r became %r" % (_meaning(c1), _meaning(c2)), value=data, version=ver, recipe=recipe)
            # a history that is read and written again (every later session does that) must stay the same
            dec3 = serializer.json_to_python(serializer.python_to_json(data2, ver))
            back3 = [_change.DataToChange(proj)(d) for d in dec3]
            for c1, c3 in zip(changes, back3):
                if not same(_meaning(c1), _meaning(c3)):
                    return h.fail("history_meaning_changed", "after two save/load cycles a change does something else: %r became %r" % (_meaning(c1), _meaning(c3)), value=data, version=ver, recipe=recipe)
            for c1, c2 in zip(changes, back):
                if type(c2).__name__ != ("CreateResource" if isinstance(c1, _change.CreateResource) else type(c1).__name__):
                    return h.fail("history_kind_changed", "change kind %s became %s" % (type(c1).__name__, type(c2).__name__), value=data, version=ver, recipe=recipe)
            return h.sample(value=data, version=ver)
        finally:
            undo()

    return run


_OLD_INSTANCES = instances
_OLD_RUN_INSTANCE = run_instance


def instances(tier):  # noqa: F811
    out = _OLD_INSTANCES(tier)
    for n in (1, 2):
        out.append(("history.n%d" % n, dict(kind="history", n=n)))
    for k in range(6):
        out.append(("reopen.%d" % k, dict(kind="reopen", k=k)))
    return out


def run_instance(name, params, seconds):  # noqa: F811
    if params.get("kind") == "history":
        return h.explore_instance(make_history_run(params), seconds)
    if params.get("kind") == "reopen":
        from harness.c12_reopen import make_reopen_run

        return h.explore_instance(make_reopen_run(params), seconds)
    return _OLD_RUN_INSTANCE(name, params, seconds)
