"""C08 — the source-annotated syntax tree is lossless and its regions are exact (DESIGN.md §5 C08).
Layer 1: rx2z3 language inclusion of the tokenizer's literal grammar in rope's patterns (unbounded).
Layer 3: patchedast.get_patched_ast / write_ast on corpus K08 with symbolic comment bodies and
identifier spellings."""
import re
import tokenize
import warnings

warnings.simplefilter("ignore")
from harness.bcommon import reserved_for  # noqa: E402  (boots the loader)
from harness.corpus_k08 import K08  # noqa: E402
from harness import c08_judge  # noqa: E402
from rsx import core, h, rx2z3  # noqa: E402
from rsx.core import PathAbort, Unsupported, assume, mkbool  # noqa: E402
from rsx import symstr as S  # noqa: E402
from rsx.symstr import sym_str, tosym, SymStr, concretize, mkstr, sym_eq  # noqa: E402
from rope.refactor import patchedast  # noqa: E402
from rope.base import codeanalyze  # noqa: E402
import ast  # noqa: E402

PROPERTY = "C08"
INSTANCE_SECONDS = {"quick": 900, "thorough": 3000}
EXPLANATION = (
    "(regex, unbounded length) rope's live number / string / comment patterns are translated to z3 regular expressions "
    "and z3 decides L(tokenizer grammar) is included in L(rope pattern) for strings of any length. (trees) for every template of corpus "
    "K08 (one per grammar production family, several layouts) the body of every comment is a fully symbolic "
    "printable-ASCII string and identifier spellings are symbolic; patch_ast and write_ast run on the symbolic source; "
    "write_ast(node) == source is decided by a solver query; at the witness every node's region must lie inside its "
    "parent's, equal the interpreter's own node extent and re-parse to the same node."
)
ASSUMPTIONS = [
    "A4: the parser does not look inside comment bodies or identifiers (placeholder parse, checked at the witness)",
    "comment bodies contain no newline; layouts are those of corpus K08",
]
OUTSIDE = "free layout of whole programs; comment bodies longer than L; non-ASCII source"
BOUNDS = {"quick": {"comment_L": 4}, "thorough": {"comment_L": 7}}

STRING_PREFIX = r"(|[rRuUbBfF]|[bB][rR]|[rR][bB]|[fF][rR]|[rR][fF])"
TOK_STRING = "(" + STRING_PREFIX + r"'[^\n'\\]*(\\.[^\n'\\]*)*'|" + STRING_PREFIX + r'"[^\n"\\]*(\\.[^\n"\\]*)*")'


def regex_queries():
    s = patchedast._Source.__new__(patchedast._Source)
    return {
        "number": (tokenize.Number, s._get_number_pattern(), "x = %s\n"),
        "string": (TOK_STRING, codeanalyze.get_any_string_pattern(), "x = %s\n"),
        "comment": (r"#[^\r\n]*", codeanalyze.get_comment_pattern(), "x = 1 %s\n"),
    }


def instances(tier):
    out = [("regex.%s" % k, dict(kind="regex", q=k)) for k in regex_queries()]
    for k, (name, t) in enumerate(K08):
        out.append(("tree.%s" % name, dict(kind="tree", k=k, L=BOUNDS[tier]["comment_L"])))
    return out


def make_regex(p):
    def run():
        a, b, frame = regex_queries()[p["q"]]
        verdict, wit = rx2z3.included(a, b)
        if verdict == "unknown":
            raise Unsupported("z3 returned unknown on the regular-language inclusion query")
        if verdict == "no":
            return h.fail("literal_not_covered", "a %s literal the tokenizer accepts is not matched by rope's pattern: %r" % (p["q"], wit), literal=wit, frame=frame, which=p["q"])
        return h.sample(query="L(tokenizer %s) subset of L(rope %s pattern): unsat" % (p["q"], p["q"]))

    return run


def make_tree(p):
    name, T = K08[p["k"]]
    L = p["L"]
    ids = sorted({int(x) for x in re.findall(r"\{(\d)\}", T)})
    cms = sorted({int(x) for x in re.findall(r"\{c(\d)\}", T)})
    concrete = set(re.findall(r"[A-Za-z_][A-Za-z_0-9]*", re.sub(r"\{c?\d\}", " ", T)))

    def run():
        E = core.ENGINE
        import keyword
        import builtins

        res = concrete | set(keyword.kwlist) | set(dir(builtins)) | {"f", "r", "b", "u"}
        letters = [c for c in "ghjkmnopqstvwyz" if c not in res][:4]
        names = {i: sym_str("n%d" % i, 1, ranges=[(ord(c), ord(c)) for c in letters]) for i in ids}
        comments = {}
        for i in cms:
            c = sym_str("c%d" % i, L, ranges=((32, 126),))
            comments[i] = c
        # which identifier slots are spelled alike is decided first: validity of the instance may depend on it
        # (a parameter list with two equal names does not compile), and each case is its own path
        ordered = [names[i] for i in sorted(names)]
        for a_ in range(len(ordered)):
            for b_ in range(a_):
                bool(ordered[a_] == ordered[b_])
        out = SymStr(())
        pos = 0
        for m in re.finditer(r"\{(c?)(\d)\}", T):
            out = tosym(out + T[pos:m.start()])
            out = tosym(out + (comments[int(m.group(2))] if m.group(1) else names[int(m.group(2))]))
            pos = m.end()
        src = mkstr(tosym(out + T[pos:]).cs)
        m0 = E.fresh_model()
        csrc0 = concretize(src, m0)
        try:
            compile(csrc0, name, "exec")
        except SyntaxError:
            raise PathAbort("invalid instance")
        try:
            node = patchedast.get_patched_ast(src, True)
            written = patchedast.write_ast(node)
        except (PathAbort, Unsupported):
            raise
        except Exception as e:
            return h.fail("patch_raised", "get_patched_ast/write_ast raised %s: %s" % (type(e).__name__, e), src=src, template=name)
        eq = sym_eq(written, src) if len(tosym(written)) == len(tosym(src)) else False
        f_ = h.require(eq, "roundtrip", "write_ast(get_patched_ast(source)) differs from the source", src=src, template=name)
        if f_:
            return f_
        m = E.fresh_model()
        csrc = concretize(src, m)
        # instantiate regions under the model (they are concrete ints here) and judge
        cnode = node
        for n_ in ast.walk(cnode):
            if hasattr(n_, "region"):
                n_.region = (int(concretize(n_.region[0], m)), int(concretize(n_.region[1], m)))
        problems = c08_judge.check_regions(csrc, cnode)
        if problems:
            f_ = h.fail("regions", "; ".join(problems[:4]), model=m, src=src, template=name)
            f_["sig_hint"] = ",".join(sorted({x.split(":")[0] for x in problems}))
            return f_
        return h.sample(src=src, template=name)

    return run


def run_instance(name, params, seconds):
    return h.explore_instance(make_regex(params) if params["kind"] == "regex" else make_tree(params), seconds)
