"""The close/reopen scenario (plain Python; uses whichever rope is loaded)."""
import os
import shutil
import tempfile

FILES = ["a.py", "b.py", "c.py"]
# texts as rope's own refactorings produce them: "\n" newlines only (the on-disk convention is the file's)
TEXTS = ["x = 1\n", "y = 'é$'\n", "z = 3\nw = 4\n"]


def snapshot(root):
    out = {}
    for d, ds, fs in os.walk(root):
        if ".ropeproject" in d:
            continue
        for x in fs:
            p = os.path.join(d, x)
            with open(p, "rb") as fh:
                out[os.path.relpath(p, root)] = fh.read()
    return out


def _run_ops(tmp, ops):
    """perform the operations in a fresh project on directory tmp; returns the (open) project"""
    from rope.base import project as rproject, change, exceptions

    with open(os.path.join(tmp, "a.py"), "wb") as fh:
        fh.write(b"a = 0\r\nb = 1\r\n")  # CRLF on disk: the convention has to survive undo after reopen
    proj = rproject.Project(tmp, save_history=True, save_objectdb=True, automatic_soa=False)
    for i, (kind, f, c) in enumerate(ops):
        path = FILES[f]
        try:
            if kind == 0:
                cs = change.ChangeSet("edit %d" % i)
                cs.add_change(change.ChangeContents(proj.get_file(path), TEXTS[c]))
                proj.do(cs)
            elif kind == 1:
                proj.do(change.CreateResource(proj.get_file(path)))
            elif kind == 2:
                cs = change.ChangeSet("move %d" % i)
                cs.add_change(change.MoveResource(proj.get_file(path), FILES[(f + 1) % 3], exact=True))
                proj.do(cs)
            elif kind == 3:
                proj.history.undo()
            elif kind == 4:
                proj.history.redo()
            else:
                cs = change.ChangeSet("two %d" % i)
                cs.add_change(change.ChangeContents(proj.get_file(path), TEXTS[c]))
                cs.add_change(change.ChangeContents(proj.get_file(path), TEXTS[(c + 1) % 3]))
                proj.do(cs)
        except (exceptions.RopeError, OSError):
            continue
    return proj


def _undo_outcome(proj, tmp):
    try:
        proj.history.undo()
        return snapshot(tmp)
    except Exception as e:
        return "raised %s" % type(e).__name__


def _redo_outcome(proj, tmp):
    try:
        proj.history.redo()
        return snapshot(tmp)
    except Exception as e:
        return "raised %s" % type(e).__name__


def scenario(ops):
    from rope.base import project as rproject, change

    problems = []
    tmp = tempfile.mkdtemp(prefix="c12reopen")
    twin = tempfile.mkdtemp(prefix="c12twin")
    try:
        proj = _run_ops(tmp, ops)
        to_data = change.ChangeToData()
        undo_before = [to_data(c) for c in proj.history.undo_list]
        redo_before = [to_data(c) for c in proj.history.redo_list]
        desc_before = [str(c) for c in proj.history.undo_list]
        proj.close()
        proj2 = rproject.Project(tmp, save_history=True, save_objectdb=True, automatic_soa=False)
        undo_after = [to_data(c) for c in proj2.history.undo_list]
        redo_after = [to_data(c) for c in proj2.history.redo_list]
        if undo_after != undo_before:
            problems.append("undo list differs after reopen: %r -> %r" % (undo_before, undo_after))
        if redo_after != redo_before:
            problems.append("redo list differs after reopen: %r -> %r" % (redo_before, redo_after))
        if [str(c) for c in proj2.history.undo_list] != desc_before:
            problems.append("descriptions differ after reopen")
        # undo (then redo) from the reloaded lists must leave the same bytes as in a project that performed
        # the same operations and was never closed
        if not problems:
            projb = _run_ops(twin, ops)
            try:
                if undo_before:
                    a, b = _undo_outcome(proj2, tmp), _undo_outcome(projb, twin)
                    if a != b:
                        problems.append("undo after reopen gives %r, undo in the session that made the change gives %r" % (a, b))
                    elif not isinstance(a, str):
                        a, b = _redo_outcome(proj2, tmp), _redo_outcome(projb, twin)
                        if a != b:
                            problems.append("redo after reopen + undo gives %r, in the original session %r" % (a, b))
                elif redo_before:
                    a, b = _redo_outcome(proj2, tmp), _redo_outcome(projb, twin)
                    if a != b:
                        problems.append("redo after reopen gives %r, redo in the session that undid the change gives %r" % (a, b))
            finally:
                projb.close()
        proj2.close()
        return problems
    finally:
        shutil.rmtree(tmp, ignore_errors=True)
        shutil.rmtree(twin, ignore_errors=True)
