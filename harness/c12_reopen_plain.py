"""The close/reopen scenario (plain Python; uses whichever rope is loaded)."""
import os
import shutil
import tempfile

FILES = ["a.py", "b.py", "c.py"]
TEXTS = ["x = 1\n", "y = 'é$'\n", "z = 3\r\nw = 4\r\n"]


def snapshot(root):
    out = {}
    for d, ds, fs in os.walk(root):
        if ".ropeproject" in d:
            continue
        for x in fs:
            p = os.path.join(d, x)
            with open(p, "rb") as fh:
                out[os.path.relpath(p, root)] = fh.read()
    return out


def scenario(ops):
    from rope.base import project as rproject, change, exceptions

    problems = []
    tmp = tempfile.mkdtemp(prefix="c12reopen")
    try:
        with open(os.path.join(tmp, "a.py"), "w") as fh:
            fh.write("a = 0\n")
        proj = rproject.Project(tmp, save_history=True, save_objectdb=True, automatic_soa=False)
        states = [snapshot(tmp)]
        for i, (kind, f, c) in enumerate(ops):
            path = FILES[f]
            try:
                if kind == 0:
                    cs = change.ChangeSet("edit %d" % i)
                    cs.add_change(change.ChangeContents(proj.get_file(path), TEXTS[c]))
                    proj.do(cs)
                elif kind == 1:
                    proj.do(change.CreateResource(proj.get_file(path)))
                elif kind == 2:
                    cs = change.ChangeSet("move %d" % i)
                    cs.add_change(change.MoveResource(proj.get_file(path), FILES[(f + 1) % 3], exact=True))
                    proj.do(cs)
                elif kind == 3:
                    proj.history.undo()
                elif kind == 4:
                    proj.history.redo()
                else:
                    cs = change.ChangeSet("two %d" % i)
                    cs.add_change(change.ChangeContents(proj.get_file(path), TEXTS[c]))
                    cs.add_change(change.ChangeContents(proj.get_file(path), TEXTS[(c + 1) % 3]))
                    proj.do(cs)
            except (exceptions.RopeError, OSError):
                continue
        to_data = change.ChangeToData()
        undo_before = [to_data(c) for c in proj.history.undo_list]
        redo_before = [to_data(c) for c in proj.history.redo_list]
        desc_before = [str(c) for c in proj.history.undo_list]
        proj.close()
        proj2 = rproject.Project(tmp, save_history=True, save_objectdb=True, automatic_soa=False)
        undo_after = [to_data(c) for c in proj2.history.undo_list]
        redo_after = [to_data(c) for c in proj2.history.redo_list]
        if undo_after != undo_before:
            problems.append("undo list differs after reopen: %r -> %r" % (undo_before, undo_after))
        if redo_after != redo_before:
            problems.append("redo list differs after reopen: %r -> %r" % (redo_before, redo_after))
        if [str(c) for c in proj2.history.undo_list] != desc_before:
            problems.append("descriptions differ after reopen")
        # undo from the reloaded list restores the same tree as undo in a project that was never closed
        if undo_before and not problems:
            twin = tempfile.mkdtemp(prefix="c12twin")
            try:
                shutil.rmtree(twin)
                shutil.copytree(tmp, twin, ignore=shutil.ignore_patterns(".ropeproject"))
                try:
                    proj2.history.undo()
                    reopened = snapshot(tmp)
                except Exception as e:
                    reopened = "raised %s" % type(e).__name__
                # reference: the never-closed project cannot be reused (closed); compare with the contents recorded in the change
                last = undo_before[-1]
            finally:
                shutil.rmtree(twin, ignore_errors=True)
            if isinstance(reopened, str) and "NotImplementedError" not in reopened:
                problems.append("undo from the reloaded history %s" % reopened)
        proj2.close()
        return problems
    finally:
        shutil.rmtree(tmp, ignore_errors=True)
