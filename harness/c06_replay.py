"""Replay of C06 kernel counterexamples on un-instrumented rope."""
from rope.refactor import functionutils, change_signature as cs
import rope.base.exceptions as rex
from harness.c06_oracle import judge


class StubFunction:
    def get_kind(self):
        return "function"


def replay(f):
    w = f["witness"]
    if "op" in w and "files" in w:
        from harness.bref_replay import replay_with

        return replay_with(f, check_imports=True)
    deftext, calltext, desc = w["deftext"], w["calltext"], w["changers"]
    changers = []
    for ci, d in enumerate(desc):
        if d[0] == "norm":
            changers.append(cs.ArgumentNormalizer())
        elif d[0] == "remove":
            changers.append(cs.ArgumentRemover(d[1]))
        elif d[0] == "add":
            mode = d[2]
            changers.append(cs.ArgumentAdder(d[1], w["new%d" % ci], "nd%d" % ci if mode in (0, 2) else None, "nv%d" % ci if mode in (1, 2) else None))
        elif d[0] == "inline":
            changers.append(cs.ArgumentDefaultInliner(d[1]))
        elif d[0] == "reorder":
            changers.append(cs.ArgumentReorderer(list(d[1]), autodef="ad" if d[2] else None))
    try:
        definfo = functionutils.DefinitionInfo._read(StubFunction(), deftext)
        fc = cs._FunctionChangers(None, definfo, changers)
        newdef = fc.change_definition(deftext)
        newcall = fc.change_call(None, None, calltext)
    except rex.RefactoringError as e:
        return dict(reproduced=False, signature="", detail="refused: %s" % e)
    verdict, detail = judge(deftext, calltext, newdef, newcall, desc, {ci: w.get("new%d" % ci) for ci in range(len(desc))})
    kinds = "+".join(d[0] for d in desc)
    import re

    shape = re.sub(r"\b[a-z]\b", "_", deftext) + "|" + re.sub(r"\b[a-z]\b", "_", calltext)
    return dict(reproduced=verdict == "bad", signature="sig:%s:%s:%s" % (kinds, shape, desc), detail=detail)
