"""Replay of C13 counterexamples on un-instrumented rope with the real file system: rebuild the
pre-state, run the recorded mutation trace (rope operations through the project, external ones
directly on disk with the mtime advanced), compare the long-lived project with a fresh one."""
import os
import shutil
import tempfile
from rope.base import project as rproject, change, exceptions

MODS = ["a", "b", "d.c", "d"]


def answers(proj):
    files = sorted(f.path for f in proj.get_files())
    pys = sorted(f.path for f in proj.get_python_files())
    mods = {}
    for m in MODS:
        r = proj.find_module(m)
        mods[m] = None if r is None else r.path
    srcs, names = {}, {}
    for p in pys:
        try:
            pm = proj.get_pymodule(proj.get_file(p))
            srcs[p] = pm.source_code
            names[p] = sorted(pm.get_attributes())
        except exceptions.ModuleSyntaxError:
            srcs[p], names[p] = "<syntax error>", []
    pkgs = {}
    for d_ in ("d",):
        r = proj.find_module(d_)
        if r is not None and r.is_folder():
            pkgs[d_] = sorted(proj.get_pymodule(r).get_attributes())
    return dict(files=files, pys=pys, mods=mods, srcs=srcs, names=names, pkgs=pkgs)


def replay(f):
    w = f["witness"]
    tmp = tempfile.mkdtemp(prefix="c13replay")
    clock = [1000000000]

    def bump(path):
        clock[0] += 10
        os.utime(path, (clock[0], clock[0]))

    try:
        kinds, contents = w["pre_kinds"], w["pre_contents"]
        for p, k in sorted(kinds.items()):
            if k == 2:
                os.makedirs(os.path.join(tmp, p), exist_ok=True)
        for p, k in sorted(kinds.items()):
            if k == 1:
                with open(os.path.join(tmp, p), "wb") as fh:
                    c = contents[p]
                    fh.write(c["__bytes__"].encode("latin-1") if isinstance(c, dict) else c.encode("latin-1"))
                bump(os.path.join(tmp, p))
        proj = rproject.Project(tmp, ropefolder=None, automatic_soa=False)
        if w["warm"]:
            answers(proj)
        for t in w["trace"]:
            op = t[0]
            full = os.path.join(tmp, t[1]) if len(t) > 1 else None
            if op == "rope-write":
                proj.do(change.ChangeContents(proj.get_file(t[1]), t[2] + " = 2\n"))
            elif op == "rope-create":
                proj.do(change.CreateResource(proj.get_file(t[1])))
            elif op == "rope-move":
                proj.do(change.MoveResource(proj.get_file(t[1]), t[2], exact=True))
            elif op == "rope-remove":
                proj.do(change.RemoveResource(proj.get_file(t[1])))
            elif op == "undo":
                proj.history.undo()
            elif op == "ext-write":
                with open(full, "w") as fh:
                    fh.write(t[2] + " = 3\n")
                bump(full)
                proj.validate(proj.root)
            elif op == "ext-create":
                with open(full, "w") as fh:
                    fh.write("z = 9\n")
                bump(full)
                proj.validate(proj.root)
            elif op == "ext-remove":
                os.remove(full)
                proj.validate(proj.root)
            warm = answers(proj)
            fresh = answers(rproject.Project(tmp, ropefolder=None, automatic_soa=False))
            if warm != fresh:
                diff = sorted(k for k in warm if warm[k] != fresh[k])
                return dict(reproduced=True, signature="c13:stale:%s:%s" % ("+".join(x[0] for x in w["trace"]), ",".join(diff)),
                            detail="pre-state %s, warm-up=%s, trace %s: the long-lived project answers %s, a fresh one %s" % (
                                {p: k for p, k in kinds.items()}, w["warm"], w["trace"], {k: warm[k] for k in diff}, {k: fresh[k] for k in diff}))
        return dict(reproduced=False, signature="", detail="same answers after every step")
    finally:
        shutil.rmtree(tmp, ignore_errors=True)
