"""C15 — scopes and name tables agree with Python's own symbol table (DESIGN.md §5 C15).
Pattern B: pyobjectsdef scope visitors / pyscopes (GlobalScope, FunctionScope, ClassScope,
ComprehensionScope, lookup, _HoldingScopeFinder) on modules with symbolic identifier spellings."""
from harness.bcommon import make_names, force_partition, partition_sig, instantiate, cfiles, program_ok, end_of_path
from harness.corpus_k15 import K15
from harness import c15_oracle, c15_judge
from rsx import core, h
from rsx.core import PathAbort, Unsupported
from rsx.symstr import concretize
from rsx.proj import SymProject

PROPERTY = "C15"
INSTANCE_SECONDS = {"quick": 900, "thorough": 3000}
EXPLANATION = (
    "For every skeleton of corpus K15 (one per binding construct / nesting combination) identifier spellings are "
    "symbolic, so the same spelling is bound at several levels at once in some solver-explored partition. rope's scope "
    "tree (kind, name, first and last line), per-scope name tables, global/nonlocal handling and scope.lookup() for "
    "every name used in every scope, and get_inner_scope_for_line over every line, are compared at the path witness "
    "with the reference binder (language rules; cross-checked with symtable)."
)
ASSUMPTIONS = [
    "A2-A4; lambda scopes are not demanded (the property lists function, class and comprehension scopes)",
    "names rope adds for instance attributes assigned through the first parameter of a method are accepted in class scopes",
]
OUTSIDE = "programs outside corpus K15; identifiers longer than one letter"
BOUNDS = {"quick": {"corpus": "K15"}, "thorough": {"corpus": "K15"}}
CORPUS = K15


def instances(tier):
    from harness.bcommon import len2_variants

    return [("scopes.%s%s" % (sk.name, suf), dict(k=k, len2=slot)) for k, sk in enumerate(CORPUS) for suf, slot in len2_variants(sk, tier)]


def make_run(p):
    from harness.bcommon import with_len2

    sk = with_len2(CORPUS[p["k"]], p.get("len2"))

    def run():
        E = core.ENGINE
        names = make_names(sk)
        pat = force_partition(names)
        files = instantiate(sk, names)
        m = E.fresh_model()
        cf = cfiles(files, m)
        if not program_ok(cf):
            raise PathAbort("partition makes the program invalid")
        with SymProject() as sp:
            res = sp.add("main.py", files["main.py"])
            try:
                mod = sp.proj.get_pymodule(res)
                cnames = [concretize(n_, m) for n_ in names]

                def sym(s_):
                    return names[cnames.index(s_)] if s_ in cnames else s_

                rope_view = c15_judge.rope_view(mod, lambda x: concretize(x, m), c15_oracle.describe(cf["main.py"]), sym)
            except (PathAbort, Unsupported):
                raise
            except Exception as e:
                return h.fail("internal_error", "scope analysis raised %s: %s" % (type(e).__name__, e), model=m, skeleton=sk.name, src=files["main.py"], partition=partition_sig(pat))
        end_of_path(sk)
        problems = c15_judge.compare(cf["main.py"], rope_view)
        if problems:
            f_ = h.fail("scopes_differ", "; ".join(problems[:4]), model=m, skeleton=sk.name, src=files["main.py"], partition=partition_sig(pat))
            f_["sig_hint"] = ",".join(sorted({pr.split(":")[0] for pr in problems}))
            return f_
        return h.sample(skeleton=sk.name, src=files["main.py"])

    return run


def run_instance(name, params, seconds):
    return h.explore_instance(make_run(params), seconds)
