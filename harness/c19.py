"""C19 — pattern matching and restructuring rewrite exactly the real instances (DESIGN.md §5 C19).
Pattern B: similarfinder.SimilarFinder.get_matches and restructure.Restructure over corpus K19."""
import ast
from harness.bcommon import Skeleton, make_names, force_partition, partition_sig, instantiate, cfiles, program_ok, end_of_path
from harness import bref, c19_oracle
from rsx import core, h
from rsx.core import choose, PathAbort, Unsupported, sym_int, assume
from rsx.symstr import concretize
from rsx.proj import SymProject
from rope.refactor import similarfinder
import rope.base.exceptions as rex

PROPERTY = "C19"
INSTANCE_SECONDS = {"quick": 900, "thorough": 3600}
EXPLANATION = (
    "(finder) for every module of corpus K19 and every pattern of its pattern list, identifier spellings of the "
    "instance code are symbolic, so 'equal wildcards bound to equal code' is a solver-explored coincidence, and the "
    "search region [start, end) is a pair of symbolic offsets; rope's matches must be exactly those of a reference "
    "structural matcher (same extents, inside the region, bound sub-expressions equal as syntax trees). "
    "(restructure) Restructure.get_changes with goal = pattern must leave ast.dump unchanged; with commuted / "
    "re-expressed goals over a precedence-sensitive corpus (operands needing parentheses) the program must parse and "
    "print the same output."
)
ASSUMPTIONS = ["A2-A4; patterns are expression patterns with ${name} wildcards; integer operands so that the commuted goals are semantically equal"]
OUTSIDE = "statement patterns, wildcard arguments (type=, name=) beyond the defaults, programs outside K19"
BOUNDS = {"quick": {"corpus": "K19"}, "thorough": {"corpus": "K19"}}

K19 = [
    (Skeleton("r01_equal_wildcards", {"main.py": "{0} = 1\n{1} = 2\nprint({2} + {3})\nprint({0} * {1})\nprint(({0} + {0}) * 2)\n"}),
     [("${a} + ${a}", "2 * ${a}"), ("${a} + ${b}", "${b} + ${a}"), ("${a} * ${b}", "${a} * ${b}")]),
    (Skeleton("r02_precedence", {"main.py": "{0} = 3\n{1} = 4\n{2} = 5\nprint(({0} + {1}) * {2})\nprint({0} - ({1} - {2}))\nprint(-{0} ** 2, ({1} if {2} else {0}) * 2)\n"}),
     [("${x} * ${y}", "${y} * ${x}"), ("${x} - ${y}", "${x} - ${y}"), ("${x} ** ${y}", "pow(${x}, ${y})"), ("${x} + ${y}", "${y} + ${x}")]),
    (Skeleton("r03_calls_attrs", {"main.py": "{0} = [3, 1]\n{1} = [2]\nprint(sorted({0} + {1}), len({0}), max(len({0}), len({1})))\n"}),
     [("len(${s})", "len(${s})"), ("max(${p}, ${q})", "max(${q}, ${p})"), ("sorted(${s})", "list(sorted(${s}))")]),
    # statement patterns (one and two statements) with instances in every kind of statement list:
    # function body, if body, except handler, try-else and finally
    (Skeleton("r05_statement_patterns", {"main.py": "def fun({0}):\n    {1} = 0\n    try:\n        {2} = {0} + 1\n    except ValueError:\n        {1} = 0\n    else:\n        {2} = 0\n        print({2})\n    finally:\n        {1} = 0\n        print({1})\n    if {0}:\n        {2} = 0\n    return {1}\nprint(fun(1))\n"}),
     [("${x} = 0", "${x} = 0"), ("${x} = 0", "${x} = 0 + 0"), ("${x} = 0\nprint(${x})", "${x} = 0\nprint(${x})"), ("return ${v}", "return ${v}"), ("${x} = ${y} + 1", "${x} = 1 + ${y}")]),
    # instances in parameter defaults (def and lambda) and in a with header
    (Skeleton("r06_defaults_and_with_items", {"main.py": "import contextlib\n{0} = 2\ndef fun({1}={0} * 3):\n    with contextlib.nullcontext({0} * 3) as {2}:\n        return {1} + {2}\nprint(fun(), (lambda {2}={0} * 3: {2})())\n"}),
     [("${x} * 3", "3 * ${x}")]),
    (Skeleton("r04_multiline_operand", {"main.py": "{0} = 1\n{1} = 2\n{2} = ({0} +\n     {1}) * ({1}\n     - {0})\nprint({2})\n"}),
     [("${x} * ${y}", "${y} * ${x}"), ("${x} + ${y}", "${x} + ${y}")]),
]


def generated_patterns(sk):
    """the property's own pattern space: every (non-trivial) expression of the module with its
    identifier slots abstracted into wildcards (one wildcard per slot, so slots that are spelled the
    same in a partition are still matched by the pattern whose wildcards differ) - at least one
    instance exists by construction"""
    import re

    dummies = ["zq%dq" % i for i in range(sk.nslots)]
    src = re.sub(r"\{(\d+)\}", lambda m: dummies[int(m.group(1))], sk.files["main.py"])
    tree = ast.parse(src)
    out = []
    for n in ast.walk(tree):
        if not isinstance(n, ast.expr) or isinstance(n, (ast.Name, ast.Constant)) or isinstance(getattr(n, "ctx", None), (ast.Store, ast.Del)):
            continue
        seg = ast.get_source_segment(src, n)
        if seg is None or "\n" in seg:
            continue
        pat = re.sub(r"zq(\d+)q", lambda m: "${w%s}" % m.group(1), seg)
        if "${" in pat and pat not in out:
            out.append(pat)
    return out


def all_patterns(k, tier):
    s, pats = K19[k]
    pats = list(pats)
    if tier == "thorough":
        have = {p for p, _ in pats}
        pats += [(g, g) for g in generated_patterns(s) if g not in have]
    return pats


def instances(tier):
    out = []
    for k, (s, _pats) in enumerate(K19):
        pats = all_patterns(k, tier)
        for j in range(len(pats)):
            out.append(("find.%s.p%d" % (s.name, j), dict(kind="find", k=k, j=j, tier=tier)))
            if pats[j][0] != pats[j][1]:
                out.append(("restructure.%s.p%d" % (s.name, j), dict(kind="restructure", k=k, j=j, tier=tier)))
            out.append(("identity.%s.p%d" % (s.name, j), dict(kind="identity", k=k, j=j, tier=tier)))
    return out


def make_find(p):
    s = K19[p["k"]][0]
    pattern = all_patterns(p["k"], p.get("tier", "quick"))[p["j"]][0]

    def run():
        E = core.ENGINE
        names = make_names(s)
        pat = force_partition(names)
        files = instantiate(s, names)
        m = E.fresh_model()
        cf = cfiles(files, m)
        if not program_ok(cf):
            raise PathAbort()
        n = len(cf["main.py"])
        # region bounds: solver-split over the statement boundaries (line starts) and the ends
        lines = [0]
        for i, ch in enumerate(cf["main.py"]):
            if ch == "\n":
                lines.append(i + 1)
        from harness.bcommon import occurrences_of_slots

        # bounds range over the line starts and over every identifier occurrence (start and end of
        # the token), so that a region may begin or end inside an instance
        marks = sorted(set(lines) | {o for _p, _k, o in occurrences_of_slots(s, names)})
        a = marks[choose("start_mark", len(marks))]
        b = marks[choose("end_mark", len(marks))]
        if a >= b:
            raise PathAbort()
        with SymProject() as sp:
            res = sp.add("main.py", files["main.py"])
            try:
                finder = similarfinder.SimilarFinder(sp.proj.get_pymodule(res))
                got = []
                for mt in finder.get_matches(pattern, start=a, end=b):
                    r0, r1 = mt.get_region()
                    got.append((int(r0), int(r1)))
            except rex.RopeError as e:
                return h.fail("finder_refused", "get_matches raised %s" % type(e).__name__, model=m, skeleton=s.name, src=files["main.py"], pattern=pattern, start=a, end=b)
            except (PathAbort, Unsupported):
                raise
            except Exception as e:
                return h.fail("internal_error", "get_matches raised %s: %s" % (type(e).__name__, e), model=m, skeleton=s.name, src=files["main.py"], pattern=pattern, start=a, end=b)
        end_of_path(s)
        exp = c19_oracle.reference_regions(cf["main.py"], pattern, a, b)
        if sorted(got) != exp:
            return h.fail("matches_differ", "rope %s reference %s" % (sorted(got), exp), model=m, skeleton=s.name, src=files["main.py"], pattern=pattern, start=a, end=b, partition=partition_sig(pat))
        return h.sample(skeleton=s.name, src=files["main.py"], pattern=pattern, start=a, end=b)

    return run


def make_restructure(p, identity):
    s = K19[p["k"]][0]
    pattern, goal = all_patterns(p["k"], p.get("tier", "quick"))[p["j"]]
    if identity:
        goal = pattern

    def build_op(sk_, names, files, cf):
        return dict(api="restructure", pattern=pattern, goal=goal)

    def post(before, after, op):
        if identity and ast.dump(ast.parse(before["main.py"])) != ast.dump(ast.parse(after["main.py"])):
            return "identity_changes_tree", "goal == pattern changed the syntax tree: %r -> %r" % (before["main.py"], after["main.py"])
        if not identity:
            return c19_oracle.unreplaced(before["main.py"], after["main.py"], pattern, goal)
        return "ok", ""

    def run():
        return bref.run_refactoring(s, build_op, PROPERTY, check_imports=False, post=post)

    return run


def run_instance(name, params, seconds):
    if params["kind"] == "find":
        run = make_find(params)
    else:
        run = make_restructure(params, params["kind"] == "identity")
    return h.explore_instance(run, seconds)
