"""Replay of C11 counterexamples on un-instrumented rope with the real file system."""
import os
import shutil
import tempfile
from rope.base import project as rproject, change, exceptions
from harness.c10_replay import snap


def _materialise(tmp, state):
    for p, v in sorted(state.items()):
        if v is None:
            os.makedirs(os.path.join(tmp, p), exist_ok=True)
    for p, v in sorted(state.items()):
        if v is not None:
            with open(os.path.join(tmp, p), "wb") as fh:
                fh.write(v.encode("latin-1"))


def _mk(proj, d):
    if d[0] == "edit":
        return change.ChangeContents(proj.get_file(d[1]), d[2])
    if d[0] == "mkfile":
        return change.CreateResource(proj.get_file(d[1]))
    if d[0] == "mkdir":
        return change.CreateResource(proj.get_folder(d[1]))
    if d[0] == "move":
        return change.MoveResource(proj.get_file(d[1]), d[2], exact=True)
    if d[0] == "mvdir":
        return change.MoveResource(proj.get_folder(d[1]), d[2], exact=True)
    return change.RemoveResource(proj.get_file(d[1]))


def _apply_ref(st, d):
    if d[0] == "edit":
        st[d[1]] = d[2].encode("utf-8")
    elif d[0] == "mkfile":
        st[d[1]] = b""
    elif d[0] == "mkdir":
        st[d[1]] = None
    elif d[0] == "move":
        st[d[2]] = st.pop(d[1])
    elif d[0] == "mvdir":
        for q in [q for q in st if q == d[1] or q.startswith(d[1] + "/")]:
            st[d[2] + q[len(d[1]):]] = st.pop(q)


def _resources(d):
    return {d[1], d[2]} if d[0] in ("move", "mvdir") else {d[1]}


def _touches(r, s):
    return r == s or r.startswith(s + "/") or s.startswith(r + "/")


def _closure(descs, i):
    sel = [i]
    touched = set(_resources(descs[i]))
    for j in range(i + 1, len(descs)):
        rs = _resources(descs[j])
        if any(_touches(r, t) for r in rs for t in touched):
            sel.append(j)
            touched |= rs
    return sel


def replay(f):
    w = f["witness"]
    tmp = tempfile.mkdtemp(prefix="c11replay")
    try:
        _materialise(tmp, w["pre"])
        if "ops" in w:  # inverse
            proj = rproject.Project(tmp, ropefolder=None, automatic_soa=False)
            cs = change.ChangeSet("composite")
            for d in w["ops"]:
                cs.add_change(_mk(proj, d))
            before = snap(tmp)
            proj.do(cs)
            after = snap(tmp)
            kinds = "+".join(d[0] for d in w["ops"])
            removal = any(d[0] == "remove" for d in w["ops"])
            try:
                proj.history.undo()
            except Exception as e:
                return dict(reproduced=True, signature="inverse:undo_raised:%s:removal=%s:%s" % (kinds, removal, type(e).__name__), detail="ops=%s undo raised %s: %s" % (w["ops"], type(e).__name__, e))
            if snap(tmp) != before:
                return dict(reproduced=True, signature="inverse:undo_not_inverse:%s:removal=%s" % (kinds, removal), detail="ops=%s pre=%s after undo=%s" % (w["ops"], before, snap(tmp)))
            proj.history.redo()
            if snap(tmp) != after:
                return dict(reproduced=True, signature="inverse:redo_not_inverse:%s:removal=%s" % (kinds, removal), detail="ops=%s after do=%s after redo=%s" % (w["ops"], after, snap(tmp)))
            return dict(reproduced=False, signature="", detail="undo/redo are inverses here")
        limit = w["limit"]
        proj = rproject.Project(tmp, ropefolder=None, automatic_soa=False, max_history_items=limit)
        hist = proj.history
        pre = snap(tmp)
        done = []
        codes = "+".join(t[0] for t in w["trace"])
        for step, t in enumerate(w["trace"]):
            before = snap(tmp)
            ulen, rlen = len(hist.undo_list), len(hist.redo_list)
            if t[0] in ("edit", "mkfile", "mkdir", "move", "mvdir"):
                cs = change.ChangeSet("step %d" % step)
                cs.add_change(_mk(proj, t))
                try:
                    proj.do(cs)
                except Exception as e:
                    if snap(tmp) != before:
                        return dict(reproduced=True, signature="algebra:refused_do_changed_tree:%s" % codes, detail="trace=%s" % w["trace"])
                    return dict(reproduced=False, signature="", detail="refused without effect")
                for x in done:
                    if x["status"] == "undone":
                        x["status"] = "forgotten"
                done.append(dict(desc=t, obj=cs, status="force"))
                if hist.redo_list:
                    return dict(reproduced=True, signature="algebra:redo_not_cleared:%s" % codes, detail="trace=%s" % w["trace"])
            else:
                op = t[0]
                try:
                    if op == "undo":
                        res = hist.undo()
                    elif op == "undo-drop":
                        res = hist.undo(drop=True)
                    elif op == "redo":
                        res = hist.redo()
                    elif op in ("undo-i", "undo-i-drop"):
                        lst = list(hist.undo_list)
                        res = hist.undo(lst[t[1]], drop=(op == "undo-i-drop"))
                    else:
                        lst = list(hist.redo_list)
                        res = hist.redo(lst[t[1]])
                except exceptions.HistoryError:
                    expected_empty = (ulen == 0) if op.startswith("undo") else (rlen == 0)
                    if not expected_empty or snap(tmp) != before:
                        return dict(reproduced=True, signature="algebra:bad_refusal:%s" % codes, detail="trace=%s" % w["trace"])
                    continue
                except Exception as e:
                    return dict(reproduced=True, signature="algebra:history_op_raised:%s:%s" % (codes, type(e).__name__), detail="trace=%s: %s raised %s: %s" % (w["trace"], op, type(e).__name__, e))
                if op in ("undo-i", "redo-i", "undo-i-drop"):
                    descs = [[x["desc"] for x in done if x["obj"] is c][0] for c in lst]
                    exp = sorted(_closure(descs, t[1]))
                    got = sorted(lst.index(c) for c in res)
                    if exp != got:
                        return dict(reproduced=True, signature="algebra:wrong_dependents:%s" % codes, detail="trace=%s: selected %d of %s: rope (un)did %s, closure is %s" % (w["trace"], t[1], descs, got, exp))
                for c in res:
                    for x in done:
                        if x["obj"] is c:
                            x["status"] = ("forgotten" if op.endswith("-drop") else "undone") if op.startswith("undo") else "force"
            if {id(c_) for c_ in hist.redo_list} != {id(x["obj"]) for x in done if x["status"] == "undone"}:
                return dict(reproduced=True, signature="algebra:redo_list_wrong:%s" % codes, detail="trace=%s: after step %d the redo list is not the set of undone, not dropped changes" % (w["trace"], step))
            if len(hist.undo_list) > limit:
                return dict(reproduced=True, signature="algebra:limit_exceeded:%s" % codes, detail="trace=%s undo list %d > %d" % (w["trace"], len(hist.undo_list), limit))
            st = dict(pre)
            try:
                for x in done:
                    if x["status"] == "force":
                        _apply_ref(st, x["desc"])
            except KeyError as e:
                return dict(reproduced=True, signature="algebra:not_dependency_closed:%s" % codes, detail="trace=%s" % w["trace"])
            if snap(tmp) != st:
                return dict(reproduced=True, signature="algebra:tree_differs_from_replay:%s" % codes, detail="pre=%s trace=%s limit=%d: after step %d tree=%s, replay of the changes in force=%s" % (pre, w["trace"], limit, step, snap(tmp), st))
        return dict(reproduced=False, signature="", detail="tree equals the replay after every step")
    finally:
        shutil.rmtree(tmp, ignore_errors=True)
