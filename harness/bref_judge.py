"""Behavioural judge for refactorings (plain Python): the refactored project must parse, every
module that imported before must still import, and the entry program must print the same output /
raise the same exception type."""
from oracles import runprog


def modules_of(files):
    out = []
    for p in sorted(files):
        if p.endswith(".py"):
            parts = p[:-3].split("/")
            out.append(".".join(parts[:-1]) if parts[-1] == "__init__" else ".".join(parts))
    return [m for m in out if m]


def import_all(files, skip=()):
    """{module: None | exception type} when importing each module in a fresh interpreter"""
    res = {}
    for m in modules_of(files):
        if m in skip:
            continue
        f = dict(files)
        f["__probe__.py"] = "import %s\n" % m
        out, exc = runprog.run(f, "__probe__.py")
        res[m] = exc
    return res


def judge(before, after, entry, check_imports=True, entry_after=None):
    err = runprog.compiles(after)
    if err:
        return "does_not_parse", "refactored project does not parse: %s" % err
    entry_after = entry_after or entry
    rb = runprog.run(before, entry)
    if entry_after not in after:
        return "entry_missing", "entry module %s no longer exists" % entry_after
    ra = runprog.run(after, entry_after)
    if rb != ra:
        return "behaviour_changed", "before %r after %r" % (rb, ra)
    if check_imports:
        ib = import_all(before, skip=(entry[:-3].replace("/", "."),))
        ia = import_all(after, skip=(entry_after[:-3].replace("/", "."),))
        broken = sorted(m for m, e in ia.items() if e is not None and not (m in ib and ib[m] == e) and not (m not in ib and False))
        # a module that failed to import before may fail the same way after; new modules must import
        broken = [m for m in broken if not (m in ib and ib[m] is not None)]
        if broken:
            return "import_broken", "modules %s no longer import: %s" % (broken, {m: ia[m] for m in broken})
    return "ok", ""
