"""Validation of the C18 pickle stub (concrete, not the deciding step): truncate real history /
objectdb files at every byte offset and record which exception types pickle.load really raises."""
import json
import os
import subprocess
import sys

SCRIPT = r'''
import os, pickle, shutil, sys, tempfile, json
sys.path.insert(0, os.environ.get("ROPE_REPO", "/repo"))
from rope.base import project as rproject, change
tmp = tempfile.mkdtemp(prefix="c18trunc")
try:
    open(os.path.join(tmp, "a.py"), "w").write("x = 1\n")
    p = rproject.Project(tmp, save_history=True, save_objectdb=True)
    p.do(change.ChangeContents(p.get_file("a.py"), "x = 2\n"))
    p.pycore.analyze_module(p.get_file("a.py"))
    p.close()
    seen = {}
    n = 0
    for name in ("history", "objectdb"):
        data = open(os.path.join(tmp, ".ropeproject", name), "rb").read()
        for k in range(len(data)):
            n += 1
            try:
                pickle.loads(data[:k])
                seen["<object>"] = seen.get("<object>", 0) + 1
            except BaseException as e:
                seen[type(e).__name__] = seen.get(type(e).__name__, 0) + 1
    print(json.dumps({"offsets_tried": n, "outcomes": seen}))
finally:
    shutil.rmtree(tmp, ignore_errors=True)
'''


def truncation_validation(stub_kinds):
    env = dict(os.environ)
    env.pop("PYTHONPATH", None)
    p = subprocess.run(["/venv/bin/python", "-c", SCRIPT], capture_output=True, text=True, env=env, timeout=300)
    try:
        d = json.loads(p.stdout.strip().splitlines()[-1])
    except Exception:
        return {"error": (p.stderr or p.stdout)[-300:]}
    d["all_outcomes_in_stub_set"] = all(k in stub_kinds for k in d["outcomes"])
    return d
