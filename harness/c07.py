"""C07 — import tidying never changes what a name means, and is idempotent (DESIGN.md §5 C07).
Pattern B: importutils.ImportOrganizer actions over corpus K07."""
import os
import shutil
from harness.bcommon import Skeleton
from harness import bref, refops
from harness.c02_replay import materialise
from rsx import core, h
from rsx.core import choose

PROPERTY = "C07"
INSTANCE_SECONDS = {"quick": 900, "thorough": 3600}
EXPLANATION = (
    "For every skeleton of corpus K07 (import blocks: plain, dotted, aliased, from, star, relative, duplicated, unused, "
    "__all__ re-exports) in a small multi-module project, the spellings of imported aliases and used names are "
    "symbolic - so used-or-unused, duplicate-or-not, one alias shadowing another import and the lexicographic order "
    "rope sorts by are all solver-explored - and the three import preferences are solver-split booleans. The action's "
    "result must parse, keep every module importable, print the same output (the drivers print every imported name "
    "they use), and applying the same action to the result a second time must change nothing."
)
ASSUMPTIONS = ["A2-A4; module and package names are concrete (A11)"]
OUTSIDE = "import blocks outside corpus K07; third-party / stdlib classification beyond the stub modules of the corpus"
BOUNDS = {"quick": {"corpus": "K07"}, "thorough": {"corpus": "K07"}}

LIB = {"pa.py": "aa = 1\nbb = 2\n", "pb.py": "cc = 3\n", "pkg/__init__.py": "", "pkg/other.py": "vv = 7\n"}


def sk(name, main, extra=None, entry="main.py"):
    files = dict(LIB)
    files.update(extra or {})
    files["main.py"] = main
    return Skeleton(name, files, entry=entry)


K07 = [
    (sk("k01_alias_shadowing", "import pb\nimport pa\nfrom pa import aa as {0}, bb as {1}\nimport pa as {2}\nprint({3}, pb.cc)\n"), ["organize_imports"]),
    (sk("k02_star_and_unused", "from pa import *\nimport pb as {0}\n{1} = 1\nprint(aa, {2})\n"), ["organize_imports", "expand_star_imports"]),
    (sk("k03_sort_and_duplicates", "import pb as {0}\nimport pa as {1}\nfrom pa import aa, bb\nimport pb as {2}\nprint({0}.cc, {1}.aa, aa)\n"), ["organize_imports"]),
    (sk("k04_all_reexport", "from api import *\nprint({1})\n", {"api.py": "from pa import aa as {0}\nfrom pa import bb\n__all__ = ['{0}']\n"}), ["organize_imports@api.py"]),
    (sk("k05_relative", "import pkg.sub\n", {"pkg/sub.py": "from . import other as {0}\nfrom .other import vv as {1}\nprint({0}.vv, {1}, {2})\n"}), ["relatives_to_absolutes@pkg/sub.py", "organize_imports@pkg/sub.py"]),
    (sk("k06_froms_to_imports", "from pa import aa as {0}, bb\nfrom pkg.other import vv\nprint({0}, bb, vv, {1})\n"), ["froms_to_imports"]),
    (sk("k07_long_imports", "import pkg.other\nimport pkg.other as {0}\nprint(pkg.other.vv, {0}.vv, {1}.vv)\n"), ["handle_long_imports", "organize_imports"]),
    (sk("k08_import_in_function", "import pa as {0}\ndef fun():\n    import pb as {1}\n    return {1}.cc + {0}.aa\n{2} = 5\nprint(fun(), {2})\n"), ["organize_imports"]),
    (sk("k09_relative_levels", "import app.core.runner\n", {
        "app/__init__.py": "", "app/settings.py": "top = 1\n", "app/util.py": "{0} = 2\n",
        "app/core/__init__.py": "", "app/core/helpers.py": "hh = 3\n", "app/core/util.py": "{1} = 4\n",
        "app/core/runner.py": "from . import helpers\nfrom .. import settings\nfrom .util import {1} as {2}\nfrom ..util import {0} as {3}\nprint(helpers.hh, settings.top, {2}, {3})\n"}),
     ["organize_imports@app/core/runner.py", "handle_long_imports@app/core/runner.py", "!froms_to_imports@app/core/runner.py"]),
    # the same object reached through a plain import and through a from-import of the same module
    (sk("k11_plain_and_from_import_of_one_module", "import pc\nfrom pc import ns\nfrom pc import ns as {0}\n{1} = ns.x + pc.ns.x + {0}.x\nprint({1})\n", {"pc.py": "class ns:\n    x = 42\n"}),
     ["froms_to_imports", "organize_imports"]),
    # imports whose use is not an ordinary name read in the same module
    (sk("k12_future_import", "from __future__ import annotations\nfrom pa import aa as {0}\ndef fun(x: Later) -> int:\n    return {0}\nclass Later:\n    pass\nprint(fun(None))\n"), ["froms_to_imports", "organize_imports"]),
    (sk("k13_used_only_as_default_of_same_name", "import pa\nimport pb as {0}\ndef fun(pa=pa):\n    return pa.aa\nprint(fun(), {0}.cc)\n"), ["organize_imports"]),
    (sk("k14_exported_through_tuple_all", "from mod import *\nprint(aa, {0})\n", {"mod.py": "from pa import aa, bb\n{0} = 3\n__all__ = (\"aa\", \"{0}\")\n"}), ["organize_imports@mod.py"]),
    (sk("k15_reexport_in_package_init", "from pkg2 import aa\nimport pkg2\nprint(aa, pkg2.{0})\n", {"pkg2/__init__.py": "from pa import aa\nfrom pa import bb as {0}\n"}), ["organize_imports@pkg2/__init__.py"]),
    # several names in one relative from-import (split_imports rebuilds one statement per name), with a
    # top-level module of the same name that an absolute import would reach instead; one unused name
    (sk("k10_relative_multi_name", "import app.user\n", {
        "helpers.py": "{0} = 'top0'\n{1} = 'top1'\nextra = 'topx'\n",
        "app/__init__.py": "", "app/helpers.py": "{0} = 'pkg0'\n{1} = 'pkg1'\nextra = 'pkgx'\n",
        "app/sub/__init__.py": "", "app/sub/deep.py": "from ..helpers import {0} as {2}, {1}, extra\nfrom .. import helpers\nval = ({2}, {1}, helpers.extra)\n",
        "app/user.py": "from .helpers import {0}, {1} as {3}, extra\nfrom .sub.deep import val\nprint({0}, {3}, val)\n"}),
     ["organize_imports@app/user.py", "organize_imports@app/sub/deep.py", "!handle_long_imports@app/user.py", "!relatives_to_absolutes@app/sub/deep.py", "!froms_to_imports@app/user.py"]),
]


def instances(tier):
    from harness.bcommon import len2_variants

    out = []
    for k, (s, actions) in enumerate(K07):
        for a in actions:
            if a.startswith("!"):  # thorough only
                if tier != "thorough":
                    continue
                a = a[1:]
            for suf, slot in len2_variants(s, tier):
                out.append(("%s.%s%s" % (s.name, a.replace("/", "_"), suf), dict(k=k, action=a, len2=slot)))
    return out


from harness.c07_post import idempotent  # noqa: E402


def make_run(p):
    from harness.bcommon import with_len2

    s, actions = K07[p["k"]]
    s = with_len2(s, p.get("len2"))
    action = p["action"]

    def build_op(sk_, names, files, cf):
        api, _, path = action.partition("@")
        prefs = dict(split_imports=bool(choose("split", 2)), pull_imports_to_top=bool(choose("pull", 2)), sort_imports_alphabetically=bool(choose("sort", 2)))
        return dict(api=api, path=path or "main.py", prefs=prefs)

    def run():
        from harness.c07_replay import tags_of

        return bref.run_refactoring(s, build_op, PROPERTY, check_imports=True, post=idempotent, tagger=tags_of)

    return run


def run_instance(name, params, seconds):
    return h.explore_instance(make_run(params), seconds)
