"""C02 — occurrence finding is exact (DESIGN.md §5 C02).  Pattern B: contrib.findit.find_occurrences
(occurrences.Finder, PyNameFilter, evaluate.ScopeNameFinder, pyscopes, pyobjectsdef visitors, worder,
simplify) runs on projects whose identifier spellings are symbolic."""
from harness.bcommon import *  # noqa: F401,F403
from harness.bcommon import Skeleton, make_names, force_partition, partition_sig, instantiate, cfiles, program_ok, occurrences_of_slots, end_of_path
from harness.corpus_k01 import K01
from harness import c02_oracle
from rsx import core, h
from rsx.core import choose, PathAbort, Unsupported
from rsx.proj import SymProject
from rope.contrib import findit
import rope.base.exceptions as rex

PROPERTY = "C02"
INSTANCE_SECONDS = {"quick": 900, "thorough": 3000}
EXPLANATION = (
    "For every skeleton of corpus K01, the spelling of every identifier slot is a symbolic lower-case letter "
    "(constrained away from keywords, builtins, the skeleton's concrete identifiers and rope's own string constants); "
    "the equality pattern among slots is forced, so z3 enumerates every aliasing / shadowing / spelled-like-a-string "
    "coincidence and every further distinction rope makes on the characters; the query occurrence is a solver-split "
    "integer over all slot occurrences. rope's answer is compared with the token set the reference binder pybind "
    "assigns to the same binding (both directions), at the path witness (oracle invariant under injective renaming)."
)
ASSUMPTIONS = [
    "A2: identifier slots are one lower-case letter, never a keyword/builtin/concrete skeleton identifier/rope string constant",
    "A3/A4: pybind and the parser are invariant under injective renaming of such identifiers; checked by parsing the witness",
    "premise 'statically determined': pybind resolves the query token to a (scope, name) binding; tokens pybind cannot judge (attributes of non-module receivers) are ignored on both sides",
]
OUTSIDE = "programs outside corpus K01, identifiers longer than one character, non-ASCII identifiers"
BOUNDS = {"quick": {"corpus": "K01", "max_slots": 5}, "thorough": {"corpus": "K01", "max_slots": 7}}
CORPUS = K01


def instances(tier):
    out = []
    for k, sk in enumerate(CORPUS):
        nocc = sum(len(__import__("re").findall(r"\{\d+\}", t)) for t in sk.files.values())
        for q in range(nocc):
            out.append(("%s.q%02d" % (sk.name, q), dict(k=k, q=q)))
        if tier == "thorough":
            from harness.bcommon import len2_variants
            import re as _re

            slots_in_order = [int(x) for t in sk.files.values() for x in _re.findall(r"\{(\d+)\}", t)]
            for suf, slot in len2_variants(sk, tier)[1:]:
                out.append(("%s.q%02d%s" % (sk.name, slots_in_order.index(slot), suf), dict(k=k, q=slots_in_order.index(slot), len2=slot)))
    return out


def make_run(p):
    from harness.bcommon import with_len2

    sk = with_len2(CORPUS[p["k"]], p.get("len2"))

    def run():
        E = core.ENGINE
        names = make_names(sk)
        pat = force_partition(names)
        files = instantiate(sk, names)
        m = E.fresh_model()
        cf = cfiles(files, m)
        if not program_ok(cf):
            raise PathAbort("partition makes the program invalid")
        occs = occurrences_of_slots(sk, names)
        path, slot, off = occs[p["q"]]
        prog, bind = c02_oracle.analyse(cf)
        determined, exp, key = c02_oracle.expected(bind, path, off)
        if not determined:
            raise PathAbort("query token not statically determined")
        with SymProject() as sp:
            res = {pth: sp.add(pth, txt) for pth, txt in files.items()}
            try:
                locs = findit.find_occurrences(sp.proj, res[path], off)
                got = {(l.resource.path, l.offset) for l in locs if not l.unsure}
            except rex.RopeError as e:
                got = None
                err = type(e).__name__
            except (PathAbort, Unsupported):
                raise
            except Exception as e:
                return h.fail("internal_error", "find_occurrences raised %s: %s" % (type(e).__name__, e), model=m, skeleton=sk.name, files=files, path=path, offset=off, partition=partition_sig(pat), slot=slot)
        end_of_path(sk)
        if got is None:
            return h.fail("refused", "find_occurrences refused (%s) a statically determined token" % err, model=m, skeleton=sk.name, files=files, path=path, offset=off, partition=partition_sig(pat), slot=slot)
        got = c02_oracle.judged(bind, got)
        if got != exp:
            hint = "q=%s:m=%s:x=%s" % (c02_oracle.classify(prog, bind, (path, off)),
                                       ",".join(sorted({c02_oracle.classify(prog, bind, x) for x in exp - got})),
                                       ",".join(sorted({c02_oracle.classify(prog, bind, x) for x in got - exp})))
            f_ = h.fail("occurrences_differ", "missing=%s extra=%s" % (sorted(exp - got), sorted(got - exp)), model=m, skeleton=sk.name, files=files, path=path, offset=off, partition=partition_sig(pat), slot=slot)
            f_["sig_hint"] = hint
            return f_
        return h.sample(skeleton=sk.name, files=files, path=path, offset=off)

    return run


def run_instance(name, params, seconds):
    return h.explore_instance(make_run(params), seconds)
