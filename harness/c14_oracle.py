"""plain-Python oracle shared by the C14 harness and its replay"""


def expected_primary(src, off):
    """oracle (plain Python): the dotted/call/subscript chain ending at the identifier at `off`"""
    import ast

    tree = ast.parse(src)
    starts = [0]
    for i, ch in enumerate(src):
        if ch == "\n":
            starts.append(i + 1)

    def pos(ln, col):
        return starts[ln - 1] + col

    best = None
    for node in ast.walk(tree):
        if isinstance(node, ast.Attribute):
            end = pos(node.end_lineno, node.end_col_offset)
            a0 = end - len(node.attr)
            if a0 <= off < end:
                best = (pos(node.lineno, node.col_offset), end)
        elif isinstance(node, ast.Name):
            a0 = pos(node.lineno, node.col_offset)
            if a0 <= off < a0 + len(node.id) and best is None:
                best = (a0, a0 + len(node.id))
    return best
