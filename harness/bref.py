"""Generic Pattern B harness for behaviour-preserving refactorings (C03-C07, C17, C19)."""
from harness.bcommon import make_names, force_partition, partition_sig, instantiate, cfiles, program_ok, end_of_path, reserved_for
from harness import refops, bref_judge
from rsx import core, h
from rsx.core import PathAbort, Unsupported, assume
from rsx.symstr import sym_str, concretize
from rsx.proj import SymProject, apply_changes
import rope.base.exceptions as rex


def fresh_name(sk, names, label="new", letters="acdeghjkmnoqstvwxyz", extra_reserved=()):
    """a symbolic one-letter name different from every slot and every reserved spelling"""
    res = reserved_for(sk, extra_reserved)
    ok = [c for c in letters if c not in {x for x in res if len(x) == 1}]
    new = sym_str(label, 1, ranges=[(ord(c), ord(c)) for c in ok])
    for n_ in names:
        if len(n_) == 1:
            assume(new != n_)
    return new


def run_refactoring(sk, build_op, prop, check_imports=True, require_run_ok=True, extra_reserved=(), post=None, prefs=None, tagger=None, pin=None):
    """one path: instantiate the skeleton, build the operation (may use choose/sym), call rope,
    judge.  build_op(sk, names, files, cf) -> op dict (values may be proxies) or raises PathAbort"""
    E = core.ENGINE
    names = make_names(sk, extra_reserved)
    for slot, spelling in (pin or {}).items():
        names[int(slot)] = spelling  # a slot fixed to one spelling (quick tiers of large skeletons)
    pat = force_partition(names)
    files = instantiate(sk, names)
    m = E.fresh_model()
    cf = cfiles(files, m)
    if not program_ok(cf):
        raise PathAbort("partition makes the program invalid")
    if require_run_ok:
        from oracles import runprog

        out, exc = runprog.run(cf, sk.entry)
        if exc is not None:
            raise PathAbort("the original program does not run cleanly in this partition (%s)" % exc)
    op = build_op(sk, names, files, cf)
    with SymProject(**(op.get("prefs") or {})) as sp:
        for pth, txt in files.items():
            sp.add(pth, txt)
        try:
            changes = refops.perform(sp.proj, op)
            after = apply_changes(files, changes)
        except rex.ModuleSyntaxError as e:
            # every module of the project parses (checked above): a syntax error here is about text
            # rope generated itself, not a refusal of the request
            f_ = h.fail("generated_code_does_not_parse", "%s raised ModuleSyntaxError on a project that parses: %s" % (op["api"], e), model=m, skeleton=sk.name, files=files, op=op, partition=partition_sig(pat), entry=sk.entry, prop=prop)
            f_["sig_hint"] = "generated_syntax_error:" + op["api"]
            return f_
        except rex.RopeError:
            end_of_path(sk, extra_reserved)
            return {"refused": True}  # refused with rope's own error: accepted
        except (PathAbort, Unsupported):
            raise
        except Exception as e:
            f_ = h.fail("internal_error", "%s raised %s: %s" % (op["api"], type(e).__name__, e), model=m, skeleton=sk.name, files=files, op=op, partition=partition_sig(pat), entry=sk.entry, prop=prop)
            f_["sig_hint"] = "internal:" + type(e).__name__
            return f_
    end_of_path(sk, extra_reserved)
    m = E.fresh_model()
    cf = cfiles(files, m)
    ca = cfiles(after, m)
    cop = concretize_op(op, m)
    verdict, detail = bref_judge.judge(cf, ca, sk.entry, check_imports=check_imports, entry_after=cop.get("entry_after"))
    if verdict == "ok" and post is not None:
        verdict, detail = post(cf, ca, cop)
    if verdict != "ok":
        f_ = h.fail(verdict, detail, model=m, skeleton=sk.name, files=files, op=op, partition=partition_sig(pat), entry=sk.entry, prop=prop)
        exc_after = detail.rsplit(", ", 1)[-1] if verdict == "behaviour_changed" else ""
        f_["sig_hint"] = "%s:%s:%s" % (verdict, "".join("+" + k for k in ("global_", "similar", "remove", "only_current") if cop.get(k) is True) + cop["api"], exc_after)
        if tagger is not None:
            # root-cause tags (the same function the replay uses): failures with different tags are
            # different groups, so an unknown cause is never hidden behind a known one
            try:
                f_["sig_hint"] += ":" + ",".join(tagger(cf, cop))
            except Exception:
                f_["sig_hint"] += ":untagged"
        return f_
    return h.sample(skeleton=sk.name, files=files, op=op)


def concretize_op(op, m):
    return {k: concretize(v, m) for k, v in op.items()}
