"""Oracle for C02/C01 (plain Python): the token set Python's scoping rules bind to the same
definition as the query token, from oracles.pybind."""
from oracles.pybind import Program


def analyse(files):
    prog = Program(files)
    return prog, prog.bindings()


def statically_determined(key):
    return isinstance(key, tuple) and len(key) == 2 and isinstance(key[0], tuple)


def expected(bind, path, offset):
    """(determined?, expected set of (path, offset), key)"""
    v = bind.get((path, offset))
    if v is None:
        return False, set(), None
    key = v[0]
    if not statically_determined(key):
        return False, set(), key
    return True, {po for po, vv in bind.items() if vv[0] == key}, key


def judged(bind, got):
    """drop reported locations pybind cannot judge (attribute tokens with unknown receiver ...)"""
    return {po for po in got if not (po in bind and (bind[po][0] is None or bind[po][0][0] == "ambiguous"))}


def classify(prog, bind, po):
    """syntactic context of a token, for root-cause signatures: scopekind:role[@flag...]"""
    path, off = po
    v = bind.get(po)
    if v is None:
        return "non-token"
    for modname, (p, c, is_pkg) in prog.mods.items():
        if p != path:
            continue
        for t in c.tokens:
            if t[0] == off:
                flags = set(c.flags.get(off, ()))
                sc, name = t[2], t[1]
                if name in sc.nonlocals:
                    flags.add("nonlocal")
                if name in sc.globals_decl:
                    flags.add("global")
                # key-level flag: the binding has a walrus-inside-comprehension binding site
                key = v[0]
                for (pp, oo), vv in bind.items():
                    if vv[0] == key and pp == path and "walruscomp" in c.flags.get(oo, ()):
                        flags.add("walruscomp")
                # inside a string literal that spans several lines, not on its first line
                import ast as _ast

                line = c.src.count("\n", 0, off) + 1
                for n in _ast.walk(c.tree):
                    if isinstance(n, _ast.JoinedStr) and n.lineno < line <= n.end_lineno:
                        flags.add("later-line-of-a-multiline-fstring")
                return "%s:%s%s" % (sc.kind, t[3], "".join("@" + f for f in sorted(flags)))
    return "?"
