"""Replay of C07 counterexamples with root-cause tags."""
import ast
from harness.bref_replay import replay_with
from harness.c07_post import idempotent


def tags_of(files, op):
    tags = set()
    tree = ast.parse(files[op["path"]])
    bound = {}
    mods = {}
    for st in ast.walk(tree):
        if isinstance(st, ast.Import):
            for a in st.names:
                bound.setdefault(a.asname or a.name.split(".")[0], []).append(a.name)
                mods.setdefault(a.name, []).append(a.asname)
        elif isinstance(st, ast.ImportFrom):
            for a in st.names:
                bound.setdefault(a.asname or a.name, []).append((st.level, st.module, a.name))
    if any(len(set(map(str, v))) > 1 for v in bound.values()):
        tags.add("one-name-bound-by-several-imports")
    stmts = {}
    for st in ast.walk(tree):
        if isinstance(st, ast.Import):
            for a in st.names:
                stmts.setdefault(a.name, []).append(id(st))
        elif isinstance(st, ast.ImportFrom):
            stmts.setdefault(st.module or "", []).append(id(st))
    if any(len(set(v)) > 1 for v in stmts.values()):
        tags.add("same-module-name-in-several-import-statements")
    # an import used only in a parameter default of a parameter with the same spelling
    imported = set(bound)
    for fn in ast.walk(tree):
        if isinstance(fn, (ast.FunctionDef, ast.AsyncFunctionDef, ast.Lambda)):
            a = fn.args
            params = a.posonlyargs + a.args + a.kwonlyargs
            defaults = [None] * (len(a.posonlyargs + a.args) - len(a.defaults)) + list(a.defaults) + list(a.kw_defaults)
            for prm, dflt in zip(params, defaults):
                if dflt is not None and any(isinstance(n, ast.Name) and n.id == prm.arg and n.id in imported for n in ast.walk(dflt)):
                    tags.add("import-read-in-the-default-of-a-parameter-of-the-same-name")
    # an import in a package __init__ that nothing in that file uses: a re-export
    if op["path"].endswith("__init__.py"):
        used = {n.id for n in ast.walk(tree) if isinstance(n, ast.Name) and isinstance(n.ctx, ast.Load)}
        if imported - used:
            tags.add("re-export-in-package-init")
    if op["api"] == "froms_to_imports":
        # 'from package import module' names a submodule, not an attribute
        import posixpath

        here = posixpath.dirname(op["path"])
        for st in ast.walk(tree):
            if isinstance(st, ast.ImportFrom):
                base = here
                for _ in range(max(st.level - 1, 0)):
                    base = posixpath.dirname(base)
                if st.level == 0:
                    base = ""
                if st.module:
                    base = posixpath.join(base, *st.module.split("."))
                for a in st.names:
                    if posixpath.join(base, a.name + ".py") in files or posixpath.join(base, a.name, "__init__.py") in files:
                        tags.add("from-import-of-a-submodule")
    return sorted(tags)


def replay(f):
    r = replay_with(f, post=idempotent, check_imports=True)
    if r.get("reproduced"):
        try:
            verdict = "not_idempotent" if ":not_idempotent" in r["signature"] else "second_application_raised" if "second_application" in r["signature"] else "behaviour"
            tags = tags_of(f["witness"]["files"], f["witness"]["op"])
            if verdict == "behaviour":
                # an equal sort key explains flip-flopping order, not a change of meaning
                tags = [t for t in tags if t != "same-module-name-in-several-import-statements"]
            r["signature"] = r["signature"].replace("|", "/") + "".join("|%s@%s" % (verdict, t) for t in tags)
        except Exception:
            r["signature"] = r["signature"].replace("|", "/") + "|untagged"
    return r
