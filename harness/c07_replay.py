from harness.bref_replay import replay_with
from harness.c07_post import idempotent


def replay(f):
    return replay_with(f, post=idempotent, check_imports=True)
