"""Replay of C02 counterexamples on un-instrumented rope."""
import os
import shutil
import tempfile
from rope.base import project as rproject
from rope.contrib import findit
import rope.base.exceptions as rex
from harness import c02_oracle


def materialise(files):
    tmp = tempfile.mkdtemp(prefix="c02replay")
    for p, s in files.items():
        full = os.path.join(tmp, p)
        os.makedirs(os.path.dirname(full), exist_ok=True)
        with open(full, "w") as fh:
            fh.write(s)
    return tmp


def replay(f):
    w = f["witness"]
    files, path, off = w["files"], w["path"], w["offset"]
    prog, bind = c02_oracle.analyse(files)
    determined, exp, key = c02_oracle.expected(bind, path, off)
    if not determined:
        return dict(reproduced=False, signature="", detail="query token not statically determined")
    tmp = materialise(files)
    try:
        proj = rproject.Project(tmp, ropefolder=None)
        try:
            locs = findit.find_occurrences(proj, proj.get_file(path), off)
            got = {(l.resource.path, l.offset) for l in locs if not l.unsure}
        except rex.RopeError as e:
            return dict(reproduced=True, signature="c02:%s:refused:%s" % (w["skeleton"], c02_oracle.classify(prog, bind, (path, off))), detail="find_occurrences at %s:%d of %r refused: %s" % (path, off, files, e))
        except Exception as e:
            return dict(reproduced=True, signature="c02:%s:internal:%s" % (w["skeleton"], type(e).__name__), detail="find_occurrences at %s:%d of %r raised %s: %s" % (path, off, files, type(e).__name__, e))
        finally:
            proj.close()
        got = c02_oracle.judged(bind, got)
        if got == exp:
            return dict(reproduced=False, signature="", detail="rope agrees with pybind")
        missing = sorted(exp - got)
        extra = sorted(got - exp)
        sig = "c02:%s:query=%s:missing=[%s]:extra=[%s]" % (
            w["skeleton"], c02_oracle.classify(prog, bind, (path, off)),
            ",".join(sorted({c02_oracle.classify(prog, bind, x) for x in missing})),
            ",".join(sorted({c02_oracle.classify(prog, bind, x) for x in extra})))
        return dict(reproduced=True, signature=sig, detail="files=%r query=%s:%d: rope reports %s, Python binds %s (missing %s, extra %s)" % (files, path, off, sorted(got), sorted(exp), missing, extra))
    finally:
        shutil.rmtree(tmp, ignore_errors=True)
