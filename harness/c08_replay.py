"""Replay of C08 counterexamples on un-instrumented rope."""
import ast
import warnings

warnings.simplefilter("ignore")
from rope.refactor import patchedast
from harness import c08_judge


def replay(f):
    w = f["witness"]
    if f["kind"] == "literal_not_covered":
        src = w["frame"] % w["literal"]
        try:
            compile(src, "<lit>", "exec")
        except SyntaxError as e:
            return dict(reproduced=False, signature="", detail="%r is not valid source: %s" % (src, e))
        tag = "literal:%s" % w["which"]
    else:
        src = w["src"]
        tag = w.get("template", "")
    try:
        node = patchedast.get_patched_ast(src, True)
        out = patchedast.write_ast(node)
    except Exception as e:
        return dict(reproduced=True, signature="c08:%s|raised[%s]" % (tag, type(e).__name__), detail="get_patched_ast(%r) raised %s: %s" % (src, type(e).__name__, e))
    problems = c08_judge.check(src, node, out)
    if not problems:
        return dict(reproduced=False, signature="", detail="patched AST of %r is exact" % src)
    cats = sorted({p.split(":")[0] for p in problems})
    return dict(reproduced=True, signature="c08:%s|%s" % (tag, "|".join(cats)), detail="source %r: %s" % (src, " | ".join(problems[:5])))
