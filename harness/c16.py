"""C16 — files survive rope byte-for-byte apart from the intended edit (DESIGN.md §5 C16).

The real File.read / ChangeContents / project.do / fscommands.{file_data_to_unicode,
unicode_to_file_data, read_str_coding, _find_coding} run on symbolic file bytes."""
import os
import tempfile
import shutil
from rsx import shims

shims.boot()
from rsx import core, h, rt  # noqa: E402
from rsx.core import sym_int, assume, mkbool, PathAbort, choose  # noqa: E402
from rsx import symstr as S  # noqa: E402
from rsx.symstr import sym_str, tosym, SymStr, SymBytes, concretize, sym_eq  # noqa: E402
import rope.base.fscommands as fsc  # noqa: E402
from rope.base import project as rproject, change  # noqa: E402

fsc.type = rt.sx_type
fsc.chr = rt.sx_chr

PROPERTY = "C16"
INSTANCE_SECONDS = {"quick": 900, "thorough": 3000}
EXPLANATION = (
    "Symbolic file body over the alphabet {letter, '#', U+00E9, space, '=', newline}; newline convention (LF/CRLF/CR), "
    "coding line (none/utf-8/latin-1/ascii, on line 1 or 2, optionally preceded by one solver-chosen blank from {space, tab, form feed}) "
    "and 'final newline or not' enumerated; the bytes on disk are the encoding of "
    "the text under the declared encoding. Asserted by solver query: (1) re-writing the text that File.read() returned "
    "through ChangeContents leaves the bytes identical; (2) an edit at symbolic positions with a symbolic inserted string "
    "changes exactly the edited span (bytes equal the encoding of the spliced text under the same encoding and newline "
    "convention); (3) the text written reads back equal."
)
ASSUMPTIONS = [
    "A1 (Latin-1): symbolic characters have code points < 256; UTF-8 modelled exactly for 1- and 2-byte sequences",
    "the file is valid in its declared (or default UTF-8) encoding and uses one newline convention (the property's premise)",
    "the edit does not touch the coding line",
    "stub: project.fscommands is an in-memory store of byte strings (read/write only)",
]
OUTSIDE = "code points >= 256, encodings other than utf-8/latin-1/ascii, mixed newline conventions, body longer than L"
BOUNDS = {
    "quick": {"body_L": 5, "insert_L": 1, "edit_L": {"none": 2, "utf8": 3, "latin1": 4, "ascii": 4, "latin1l2": 3, "latin1l2b": 3, "latin1ws": 3, "latin1l2ws": 3}},
    "thorough": {"body_L": 6, "insert_L": 2, "edit_L": {"none": 3, "utf8": 4, "latin1": 5, "ascii": 5, "latin1l2": 4, "latin1l2b": 4, "latin1ws": 4, "latin1l2ws": 4}},
}
STUBS = ["fscommands: in-memory byte store", "fscommands.type/chr shadowed by proxy-aware versions"]

ALPHA = [(97, 97), (35, 35), (0xE9, 0xE9), (32, 32), (61, 61), (10, 10)]
HEADERS = {"none": (None, ""), "utf8": ("utf-8", "# -*- coding: utf-8 -*-\n"), "latin1": ("latin-1", "# coding: latin-1\n"), "ascii": ("ascii", "# coding=ascii\n"),
           "latin1l2": ("latin-1", "#!/usr/bin/env python\n# vim: set fileencoding=latin-1 :\n"), "latin1l2b": ("latin-1", "\n# coding: latin-1\n"),
           # \x00 = one symbolic blank (space, tab or form feed: PEP 263 allows [ \t\f]* before the '#')
           "latin1ws": ("latin-1", "\x00# coding: latin-1\n"), "latin1l2ws": ("latin-1", "#!/usr/bin/env python\n\x00# coding: latin-1\n")}
NLS = {"lf": "\n", "crlf": "\r\n", "cr": "\r"}


class MemFS:
    def __init__(self):
        self.files = {}

    def read(self, path):
        return self.files[path]

    def write(self, path, data):
        self.files[path] = data

    def create_file(self, path):
        self.files[path] = b""

    def create_folder(self, path):
        pass

    def move(self, a, b):
        self.files[b] = self.files.pop(a)

    def remove(self, path):
        self.files.pop(path, None)


_TMP = None


def instances(tier):
    b = BOUNDS[tier]
    out = []
    for hd in HEADERS:
        for nl in NLS:
            for L in range(0, b["body_L"] + 1):
                out.append(("rewrite.%s.%s.L%d" % (hd, nl, L), dict(hd=hd, nl=nl, L=L, mode="rewrite", insL=0)))
            for L in range(1, b["edit_L"][hd] + 1):
                out.append(("edit.%s.%s.L%d" % (hd, nl, L), dict(hd=hd, nl=nl, L=L, mode="edit", insL=b["insert_L"])))
    return out


def _encode(text, enc):
    return tosym(text).encode(enc or "utf-8") if not isinstance(text, str) else text.encode(enc or "utf-8")


def make_run(p):
    enc, header = HEADERS[p["hd"]]
    nl = NLS[p["nl"]]
    L = p["L"]
    mode = p["mode"]
    global _TMP
    if _TMP is None:
        _TMP = tempfile.mkdtemp(prefix="rsxc16")
        import atexit

        atexit.register(shutil.rmtree, _TMP, True)
        open(os.path.join(_TMP, "m.py"), "w").close()

    enc, header0 = enc, header

    def run():
        header = header0
        if "\x00" in header0:
            pre_, post_ = header0.split("\x00")
            header = tosym(pre_) + sym_str("ws", 1, ranges=[(9, 9), (12, 12), (32, 32)]) + post_
        body = sym_str("body", L, ranges=ALPHA)
        if enc == "ascii" and L:
            assume(mkbool(S._and([c < 128 for c in tosym(body).cs])))
        logical = tosym(header + "") + body if L else header  # text with "\n" newlines
        ondisk = tosym(logical).replace("\n", nl) if len(logical) else ""
        if nl != "\n" and L and isinstance(ondisk, SymStr) is False and not len(logical):
            pass
        # a text without any newline has no observable convention: rope then writes "\n" - consistent by definition
        data = _encode(ondisk, enc) if len(ondisk) else b""
        fs = MemFS()
        proj = rproject.Project(_TMP, fscommands=fs, ropefolder=None, automatic_soa=False)
        try:
            f = proj.get_file("m.py")
            fs.files[f.real_path] = data
            content = f.read()
            if mode == "rewrite":
                proj.do(change.ChangeContents(f, content))
                after = fs.files[f.real_path]
                r = h.require(sym_eq(after, data) if not (isinstance(after, bytes) and isinstance(data, bytes)) else after == data,
                              "rewrite_changes_bytes", "writing back the text that was read changed the file bytes", data=data, after=after)
                if r:
                    return r
                return h.sample(data=data)
            # edit: replace content[a:b] by ins, inside the body
            n = len(content)
            h0 = len(header)
            a = sym_int("a", h0, n)
            b_ = sym_int("b", h0, n)
            assume(a <= b_)
            insL = choose("insL", p["insL"] + 1)
            ins = sym_str("ins", insL, ranges=ALPHA)
            if enc == "ascii" and insL:
                assume(mkbool(S._and([c < 128 for c in tosym(ins).cs])))
            ai, bi = a.__index__(), b_.__index__()
            # `content` has "\n" newlines whatever the convention; splice at the text level
            new_content = tosym(content)[:ai] + ins + tosym(content)[bi:]
            if not len(new_content):
                raise PathAbort()
            proj.do(change.ChangeContents(f, new_content))
            after = fs.files[f.real_path]
            # expected bytes: same splice on the logical text, same convention, same encoding;
            # if the file had no newline at all, the convention is "\n"
            had_nl = tosym(logical).find("\n") != -1 if len(logical) else False
            conv = nl if had_nl else "\n"
            exp_text = tosym(logical)[:ai] + ins + tosym(logical)[bi:]
            exp = _encode(tosym(exp_text).replace("\n", conv), enc)
            eq = sym_eq(after, exp) if not (isinstance(after, bytes) and isinstance(exp, bytes)) else after == exp
            r = h.require(eq, "edit_changes_other_bytes", "bytes after the edit are not the encoding of the spliced text", data=data, after=after, expected=exp, new_content=new_content)
            if r:
                return r
            back = f.read()
            r = h.require(sym_eq(back, new_content) if not (isinstance(back, str) and isinstance(new_content, str)) else back == new_content,
                          "written_text_reads_back_different", "text written through rope does not read back equal", data=data, new_content=new_content, back=back)
            if r:
                return r
            return h.sample(data=data, new_content=new_content)
        finally:
            proj.close()

    return run


def run_instance(name, params, seconds):
    return h.explore_instance(make_run(params), seconds)
