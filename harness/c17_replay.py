from harness.bref_replay import replay_with


def replay(f):
    return replay_with(f, check_imports=True)
