"""Replay of C17 counterexamples; adds root-cause tags computed from the concrete program."""
import ast
from harness.bref_replay import replay_with


def tags_of(files, op):
    tags = set()
    if op["api"] == "method_object":
        src = files[op["path"]]
        tree = ast.parse(src)
        line = src.count("\n", 0, op["offset"]) + 1
        parents = {}
        for n in ast.walk(tree):
            for c in ast.iter_child_nodes(n):
                parents[c] = n
        for fn in ast.walk(tree):
            if isinstance(fn, (ast.FunctionDef, ast.AsyncFunctionDef)) and fn.lineno == line:
                own = {a.arg for a in fn.args.posonlyargs + fn.args.args + fn.args.kwonlyargs} | {n.id for n in ast.walk(fn) if isinstance(n, ast.Name) and isinstance(n.ctx, ast.Store)}
                reads = {n.id for n in ast.walk(fn) if isinstance(n, ast.Name) and isinstance(n.ctx, ast.Load)} - own
                p = parents.get(fn)
                while p is not None:
                    if isinstance(p, (ast.FunctionDef, ast.AsyncFunctionDef)):
                        outer = {a.arg for a in p.args.posonlyargs + p.args.args + p.args.kwonlyargs} | {n.id for n in ast.walk(p) if isinstance(n, ast.Name) and isinstance(n.ctx, ast.Store)}
                        if reads & outer:
                            tags.add("method-object-of-a-closure")
                    p = parents.get(p)
    return sorted(tags)


def replay(f):
    r = replay_with(f, check_imports=True)
    if r.get("reproduced"):
        try:
            tags = tags_of(f["witness"]["files"], f["witness"]["op"])
        except Exception:
            tags = ["untagged"]
        if tags:
            from harness.bref_replay import manifestation

            how = manifestation(r["signature"])
            r["signature"] = r["signature"].replace("|", "/") + "".join("|%s@%s" % (t, how) for t in tags)
    return r
