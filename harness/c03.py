"""C03 — extract method/variable preserves behaviour or is refused (DESIGN.md §5 C03).
Pattern B over corpus K03: every contiguous run of complete statements and every sub-expression of
the target body is a candidate region (computed from the skeleton's AST)."""
import ast
from harness.bcommon import Skeleton
from harness import bref
from harness.bref import fresh_name
from rsx import core, h
from rsx.core import choose, PathAbort

PROPERTY = "C03"
INSTANCE_SECONDS = {"quick": 900, "thorough": 3600}
EXPLANATION = (
    "For every skeleton of corpus K03 and every region (each contiguous run of complete statements at every nesting "
    "level and each sub-expression node of the target body, computed from the AST), identifier spellings and the "
    "fresh extracted name are symbolic (z3 enumerates every coincidence between names read/written inside the region "
    "and names used around it) and similar/global_ are solver-split booleans; ExtractMethod / ExtractVariable "
    "get_changes runs on the symbolic project; the result must be a refusal (RefactoringError) or parse and print the "
    "same output / raise the same exception for every driver input."
)
ASSUMPTIONS = [
    "A2-A4; the extracted name is fresh (the property quantifies over regions and options, not over colliding names)",
    "behaviour = stdout + exception type of the driver that calls the target on inputs reaching every branch",
]
OUTSIDE = "programs outside corpus K03; staticmethod/classmethod kinds; identifiers longer than one letter"
BOUNDS = {"quick": {"corpus": "K03[:8]"}, "thorough": {"corpus": "K03"}}

K03 = [
    Skeleton("e01_conditional_write", {"main.py": "def fun({0}):\n    {1} = 0\n    if {0} > 1:\n        {1} = {0} * 2\n    {2} = {1} + 1\n    return {2} + {0}\nprint(fun(1), fun(3))\n"}),
    Skeleton("e02_loop_carried", {"main.py": "def fun({0}):\n    {1} = 0\n    for {2} in range({0}):\n        {1} = {1} + {2}\n        {3} = {1} * 2\n    return {1}\nprint(fun(0), fun(3))\n"}),
    Skeleton("e11_loop_conditional_carry", {"main.py": "def fun({0}):\n    {1} = 0\n    for {2} in range({0}):\n        print({1})\n        if {2} > 0:\n            {1} = {1} + {2}\n    return 0\nprint(fun(3))\n"}),
    Skeleton("e12_loop_else_jump", {"main.py": "def fun({0}):\n    {1} = 0\n    for {2} in range({0}):\n        for {3} in range({2}):\n            if {3} > 1:\n                break\n        else:\n            continue\n        {1} += {2}\n    return {1}\nprint(fun(5))\n"}),
    Skeleton("e13_similar_in_nested_last_block", {"main.py": "def fun({0}, {1}):\n    {2} = 0\n    if {0}:\n        if {1}:\n            {2} = 1\n            {2} = {0} * {1} + {2}\n    return {0} * {1} + {2}\nprint(fun(0, 3), fun(1, 2), fun(1, 0))\n"}),
    Skeleton("e03_augassign_early_return", {"main.py": "def fun({0}):\n    {1} = 1\n    if {0} < 0:\n        return -1\n    {1} += {0}\n    return {1}\nprint(fun(-1), fun(2))\n"}),
    Skeleton("e04_method_self", {"main.py": "class kls:\n    def __init__(self):\n        self.val = 2\n    def fun(self, {0}):\n        {1} = self.val + {0}\n        {2} = {1} * {0}\n        return {2}\nprint(kls().fun(3))\n"}),
    Skeleton("e05_module_level", {"main.py": "{0} = 2\n{1} = {0} + 1\n{2} = {1} * {0}\nprint({2})\n"}, tags=("module",)),
    Skeleton("e06_comprehension_ifexp", {"main.py": "def fun({0}):\n    {1} = [{2} * 2 for {2} in range({0})]\n    {3} = sum({1}) if {1} else 0\n    return {3}\nprint(fun(0), fun(3))\n"}),
    Skeleton("e07_while_break", {"main.py": "def fun({0}):\n    {1} = 0\n    while True:\n        {1} += 1\n        if {1} > {0}:\n            break\n    return {1}\nprint(fun(2))\n"}),
    Skeleton("e08_multiline_expr", {"main.py": "def fun({0}, {1}):\n    {2} = ({0} +\n           {1}) * 2\n    return {2}\nprint(fun(1, 2))\n"}),
    Skeleton("e09_generator", {"main.py": "def fun({0}):\n    {1} = 0\n    while {1} < {0}:\n        yield {1}\n        {1} += 1\nprint(list(fun(3)))\n"}),
    Skeleton("e14_similar_in_elif_and_else", {"main.py": "def fun({0}):\n    if {0} > 1:\n        {1} = {0} * 2\n    elif {0} > 0:\n        {1} = {0} * 2 + 1\n    else:\n        {1} = 0 - {0} * 2\n    return {1}\nprint(fun(2), fun(1), fun(0))\n"}),
    Skeleton("e15_yield_from_in_region", {"main.py": "def fun({0}):\n    {1} = 1\n    yield from range({0})\n    yield {1}\nprint(list(fun(2)))\n"}),
    Skeleton("e10_global_and_local", {"main.py": "{0} = 10\ndef fun({1}):\n    {2} = {1} + {0}\n    {3} = {2} * 2\n    return {3} - {0}\nprint(fun(1))\n"}),
]


def regions_of(src, target="fun", module_level=False):
    """[(kind, start, end)]: statement runs and sub-expressions of the target body"""
    tree = ast.parse(src)
    starts = [0]
    for i, ch in enumerate(src):
        if ch == "\n":
            starts.append(i + 1)

    def pos(ln, col):
        return starts[ln - 1] + col

    if module_level:
        body_owner = tree
        bodies = [tree.body[:-1]]  # keep the driver print out
    else:
        fn = next(n for n in ast.walk(tree) if isinstance(n, (ast.FunctionDef, ast.AsyncFunctionDef)) and n.name == target)
        body_owner = fn
        bodies = []

        def collect(stmts):
            bodies.append(stmts)
            for st in stmts:
                for f in ("body", "orelse", "finalbody"):
                    sub = getattr(st, f, None)
                    if isinstance(sub, list) and sub and isinstance(sub[0], ast.stmt):
                        collect(sub)

        collect(fn.body)
    out = []
    for stmts in bodies:
        for i in range(len(stmts)):
            for j in range(i, len(stmts)):
                out.append(("stmts", pos(stmts[i].lineno, stmts[i].col_offset), pos(stmts[j].end_lineno, stmts[j].end_col_offset)))
    seen = set()
    scan = body_owner.body[:-1] if module_level else body_owner.body
    for st in scan:
        for n in ast.walk(st):
            if isinstance(n, ast.expr) and not isinstance(getattr(n, "ctx", None), (ast.Store, ast.Del)):
                r = (pos(n.lineno, n.col_offset), pos(n.end_lineno, n.end_col_offset))
                if r not in seen:
                    seen.add(r)
                    out.append(("expr",) + r)
    return out


def corpus(tier):
    return K03[:8] if tier == "quick" else K03


def instances(tier):
    out = []
    for k, sk in enumerate(corpus(tier)):
        # regions are the same for every instantiation (one-letter names): compute on a dummy
        import re

        dummy = re.sub(r"\{(\d)\}", lambda m: "qwzyx"[int(m.group(1))], sk.files["main.py"])
        regs = regions_of(dummy, module_level="module" in sk.tags)
        for r in range(len(regs)):
            out.append(("extract.%s.r%02d.%s" % (sk.name, r, regs[r][0]), dict(k=k, r=r, tier=tier)))
        if tier == "thorough":
            # two-letter spellings, one slot at a time, on the first region of every kind
            from harness.bcommon import len2_variants

            first = {}
            for r in range(len(regs)):
                first.setdefault(regs[r][0], r)
            for suf, slot in len2_variants(sk, tier)[1:]:
                for kind_, r in sorted(first.items()):
                    out.append(("extract.%s.r%02d.%s%s" % (sk.name, r, kind_, suf), dict(k=k, r=r, tier=tier, len2=slot)))
    return out


def make_run(p):
    from harness.bcommon import with_len2

    sk = with_len2(corpus(p["tier"])[p["k"]], p.get("len2"))

    def build_op(sk_, names, files, cf):
        regs = regions_of(cf["main.py"], module_level="module" in sk.tags)
        kind, start, end = regs[p["r"]]
        new = fresh_name(sk, names, "new")
        api = "extract_method"
        if kind == "expr" and choose("variable", 2):
            api = "extract_variable"
        similar = bool(choose("similar", 2))
        global_ = bool(choose("global_", 2)) if "module" not in sk.tags else False
        return dict(api=api, path="main.py", start=start, end=end, name=new, similar=similar, global_=global_)

    def run():
        from harness.c03_replay import tags_of

        return bref.run_refactoring(sk, build_op, PROPERTY, check_imports=False, tagger=tags_of)

    return run


def run_instance(name, params, seconds):
    return h.explore_instance(make_run(params), seconds)
