"""Oracle for C15 (plain Python): what the interpreter's scoping rules say about a module, from
oracles.pybind (cross-checked against symtable), in a form comparable with rope's scope objects."""
import ast
from oracles.pybind import Collector, resolve, Sc


def describe(src):
    """nested description of the def/class/comprehension scopes: dict(kind,name,start,end,bound,children,uses)"""
    c = Collector(src)

    def conv(s):
        kids = []
        for ch in s.children:
            if ch.kind == "lambda":
                # lambdas are expression scopes the property does not list; their own scopes are not
                # demanded, but scopes nested inside them would be: corpus keeps lambdas leaf-level
                continue
            kids.append(conv(ch))
        node = s.node
        uses = sorted({(t[1], t[3]) for t in c.tokens if t[2] is s and t[3] in ("use", "bind", "param", "def", "import-as", "global", "nonlocal")})
        imported = sorted(s.nimport)
        return dict(
            kind={"module": "Module", "function": "Function", "class": "Class", "comp": "Comprehension"}[s.kind],
            name=s.name,
            start=getattr(node, "lineno", 1) if s.kind != "module" else 1,
            end=getattr(node, "end_lineno", None),
            col=getattr(node, "col_offset", 0),
            bound=sorted(s.bound - s.globals_decl - s.nonlocals),
            globals_decl=sorted(s.globals_decl),
            nonlocals=sorted(s.nonlocals),
            names_used=sorted({u[0] for u in uses}),
            children=kids,
            _sc=s,
        )

    return c, conv(c.module)


def owner_of(c, sc, name):
    """('scope', path-of-kinds) | 'builtin' | 'unbound' for name used in pybind scope sc"""
    r = resolve(sc, name, c.module)
    if isinstance(r[0], Sc):
        return r[0]
    return r[0]
