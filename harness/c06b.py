"""C06 (pipeline part) — ChangeSignature.get_changes / IntroduceParameter over corpus K06 (Pattern B).
Registered under C06 through harness/c06.py's instance list."""
from harness.bcommon import Skeleton
from harness import bref
from harness.bref import fresh_name
from rsx.core import choose, PathAbort

K06 = [
    (Skeleton("g01_function_two_modules", {
        "mod.py": "def target({0}, {1}=10, *rest, **{2}):\n    return ({0}, {1}, rest, sorted({2}.items()))\n",
        "main.py": "import mod\nfrom mod import target\n{3} = 1\nprint(target({3}), mod.target({3}, 2), target({3}, 2, 3), target({0}=5), mod.target(1, {4}=7))\n"}), "mod.py", "target"),
    (Skeleton("g02_method_and_constructor", {
        "main.py": "class Kls:\n    def __init__(self, {0}, {1}=2):\n        self.val = ({0}, {1})\n    def meth(self, {2}, {3}=4):\n        return (self.val, {2}, {3})\n{4} = Kls(1)\nprint({4}.meth(5), Kls(1, {1}=3).meth({2}=6, {3}=7), Kls({0}=8).meth(9, 10))\n"}), "main.py", "meth"),
    (Skeleton("g03_constructor", {
        "main.py": "class Kls:\n    def __init__(self, {0}, {1}=2):\n        self.val = ({0}, {1})\n{2} = Kls(1)\nprint({2}.val, Kls(1, {1}=3).val, Kls({0}=8, {1}=9).val)\n"}), "main.py", "__init__"),
    # the receiver of the method call is an attribute chain; the shorter receiver has a method of the
    # same name, so a call rewritten onto the wrong receiver still runs
    (Skeleton("g04_method_dotted_receiver", {
        "main.py": "class Inner:\n    def meth(self, {0}, {1}=4):\n        return ('inner', {0}, {1})\nclass Outer:\n    def __init__(self):\n        self.inner = Inner()\n    def meth(self, {0}, {1}=4):\n        return ('outer', {0}, {1})\n{2} = Outer()\nprint({2}.inner.meth(5), {2}.inner.meth({0}=6, {1}=7), {2}.meth(1), Outer().inner.meth(8, 9))\n"}), "main.py", "meth"),
    # non-ASCII characters inside the call (ast columns count bytes, rope's text offsets count characters)
    (Skeleton("g06_non_ascii_arguments", {
        "main.py": "def target({0}, {1}=10):\n    return ({0}, {1})\n{2} = 1\nprint(target('\u00e9', {2}), target({2}, {1}='\u00fc'), target('\u00df' + 'x'))\n"}), "main.py", "target"),
    # keyword-only parameter in the definition; calls that spread a tuple / a dict
    (Skeleton("g07_keyword_only_parameter", {
        "main.py": "def target({0}, *, {1}=2):\n    return ({0}, {1})\n{2} = 1\nprint(target({2}), target({2}, {1}=3))\n"}), "main.py", "target"),
    (Skeleton("g08_call_spreads_a_tuple", {
        "main.py": "def target({0}, {1}=10):\n    return ({0}, {1})\n{2} = (1, 2)\nprint(target(*{2}), target(3, 4))\n"}), "main.py", "target"),
    (Skeleton("g09_call_spreads_a_dict", {
        "main.py": "def target({0}, {1}=10):\n    return ({0}, {1})\n{2} = dict({1}=2)\nprint(target(1, **{2}), target(3, 4))\n"}), "main.py", "target"),
    # the method is inherited: called on instances of a subclass that does not override it
    (Skeleton("g05_method_inherited", {
        "main.py": "class Base:\n    def meth(self, {0}, {1}=4):\n        return ({0}, {1})\nclass Sub(Base):\n    def other(self, {2}):\n        return self.meth({2}, {1}=6)\n{3} = Sub()\nprint({3}.meth(5), {3}.meth({0}=6, {1}=7), {3}.other(1), Sub().meth(8, 9), Base().meth(1))\n"}), "main.py", "meth"),
]


def instances(tier):
    out = []
    for k in range(len(K06)):
        for kind in ("norm", "reorder", "add", "inline", "remove"):
            out.append(("pipeline.%s.%s" % (K06[k][0].name, kind), dict(kind="pipeline", k=k, changer=kind)))
    return out


def make_run(p):
    sk, path, target = K06[p["k"]]
    kind = p["changer"]
    is_method = target in ("meth", "__init__")

    def build_op(sk_, names, files, cf):
        off = cf[path].index("def " + target) + 4
        base = 1 if is_method else 0  # index of the first real parameter
        if kind == "norm":
            changers = [["norm"]]
        elif kind == "reorder":
            # swap the two named parameters; autodef because a defaulted one moves first
            order = list(range(base)) + [base + 1, base]
            changers = [["reorder", order, "99"]]
        elif kind == "add":
            new = fresh_name(sk, names, "new")
            mode = choose("mode", 2)
            changers = [["add", base + 2, new, "77", None if mode == 0 else "55"]]
        elif kind == "inline":
            changers = [["inline", base + 1]]
        else:
            # remove the defaulted parameter: only valid when no call supplies it -> PathAbort otherwise
            raise PathAbort("removal of a supplied parameter is outside the property's premise")
        return dict(api="change_signature", path=path, offset=off, changers=changers)

    def run():
        return bref.run_refactoring(sk, build_op, "C06", check_imports=True)

    return run
