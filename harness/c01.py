"""C01 — rename preserves the program: same bindings, same behaviour (DESIGN.md §5 C01).
Pattern B: rename.Rename(...).get_changes(new) over corpus K01 with symbolic identifier spellings,
plus the ChangeCollector kernel (Pattern A)."""
import re
from harness.bcommon import make_names, force_partition, partition_sig, instantiate, cfiles, program_ok, occurrences_of_slots, end_of_path, reserved_for, slot_alphabet
from harness.corpus_k01 import K01
from harness import c02_oracle, c01_oracle
from rsx import core, h
from rsx.core import choose, PathAbort, Unsupported, assume, sym_int
from rsx.symstr import sym_str, concretize, tosym, SymStr
from rsx.proj import SymProject, apply_changes
from rope.refactor import rename
from rope.base import codeanalyze
import rope.base.exceptions as rex

PROPERTY = "C01"
INSTANCE_SECONDS = {"quick": 900, "thorough": 3000}
EXPLANATION = (
    "(pipeline) for every skeleton of corpus K01: identifier spellings and the fresh new name are symbolic letters, the "
    "equality pattern is forced, the renamed occurrence is a solver-split integer over all slot occurrences; rope's "
    "Rename.get_changes is applied to the symbolic texts; at the witness the result must parse, be alpha-equivalent to "
    "the original under the reference binder (same grouping of identifier tokens into bindings) and print the same "
    "output / raise the same exception type when run; a rope refactoring error is an accepted refusal. "
    "(kernel) codeanalyze.ChangeCollector on fully symbolic text with 2-3 symbolic non-overlapping edits inserted in "
    "arbitrary order: the result must equal the splice computed by the specification (solver query)."
)
ASSUMPTIONS = [
    "A2-A4 as for C02; the new name is fresh: different from every identifier of the project, keywords and builtins (the property says 'to a fresh name')",
    "docs=False, in_hierarchy=False, default resources",
]
OUTSIDE = "programs outside corpus K01, identifiers longer than one letter, module/package renames (covered with C05), docs=True"
BOUNDS = {"quick": {"corpus": "K01", "collector_L": 4, "collector_L3": 2}, "thorough": {"corpus": "K01", "collector_L": 5, "collector_L3": 3}}
CORPUS = K01


def instances(tier):
    out = []
    for k, sk in enumerate(CORPUS):
        nocc = sum(len(re.findall(r"\{\d+\}", t)) for t in sk.files.values())
        for q in range(nocc):
            out.append(("rename.%s.q%02d" % (sk.name, q), dict(kind="rename", k=k, q=q)))
        if tier == "thorough":
            # two-letter spellings (old name, one slot at a time, and the new name): names that are
            # prefixes / substrings of each other, queried at the slot's first occurrence
            from harness.bcommon import len2_variants

            slots_in_order = [int(x) for t in sk.files.values() for x in re.findall(r"\{(\d+)\}", t)]
            for suf, slot in len2_variants(sk, tier)[1:]:
                out.append(("rename.%s.q%02d%s" % (sk.name, slots_in_order.index(slot), suf), dict(kind="rename", k=k, q=slots_in_order.index(slot), len2=slot)))
    for L in range(0, BOUNDS[tier]["collector_L"] + 1):
        for n in (1, 2, 3):
            if n == 3 and L > BOUNDS[tier]["collector_L3"]:
                continue
            out.append(("collector.L%d.n%d" % (L, n), dict(kind="collector", L=L, n=n)))
    return out


def make_rename(p):
    from harness.bcommon import with_len2, slot_alphabet

    sk = with_len2(CORPUS[p["k"]], p.get("len2"))
    newlen = 2 if p.get("len2") is not None else 1

    def run():
        E = core.ENGINE
        names = make_names(sk)
        pat = force_partition(names)
        res = reserved_for(sk)
        letters = "".join(sorted(set("acdeghjkmnoqstvwxyz") - {x for x in res if len(x) == 1}))
        if newlen == 2:
            letters = "".join(slot_alphabet(sk, res))  # may share letters with the old names
        new = sym_str("new", newlen, ranges=[(ord(c), ord(c)) for c in letters], exclude=[x for x in res if len(x) == newlen])
        for n_ in names:
            if len(n_) == newlen:
                assume(new != n_)  # fresh
        files = instantiate(sk, names)
        m = E.fresh_model()
        cf = cfiles(files, m)
        if not program_ok(cf):
            raise PathAbort("partition makes the program invalid")
        occs = occurrences_of_slots(sk, names)
        path, slot, off = occs[p["q"]]
        prog, bind = c02_oracle.analyse(cf)
        determined, exp, key = c02_oracle.expected(bind, path, off)
        if not determined:
            raise PathAbort("query token not statically determined")
        with SymProject() as sp:
            rs = {pth: sp.add(pth, txt) for pth, txt in files.items()}
            try:
                changes = rename.Rename(sp.proj, rs[path], off).get_changes(new)
                after = apply_changes(files, changes)
            except rex.RopeError:
                end_of_path(sk)
                return None  # refusal with rope's own error is accepted
            except (PathAbort, Unsupported):
                raise
            except Exception as e:
                return h.fail("internal_error", "Rename raised %s: %s" % (type(e).__name__, e), model=m, skeleton=sk.name, files=files, path=path, offset=off, new=new, partition=partition_sig(pat))
        end_of_path(sk)
        m = E.fresh_model()
        cf = cfiles(files, m)
        ca = cfiles(after, m)
        verdict, detail, hint = c01_oracle.judge(cf, ca, path, off, sk.entry)
        if verdict != "ok":
            f_ = h.fail(verdict, detail, model=m, skeleton=sk.name, files=files, path=path, offset=off, new=new, partition=partition_sig(pat), entry=sk.entry)
            f_["sig_hint"] = hint
            return f_
        return h.sample(skeleton=sk.name, files=files, path=path, offset=off, new=new)

    return run


def make_collector(p):
    L, n = p["L"], p["n"]

    def run():
        text = sym_str("text", L)
        # n edits [a_i, b_i) -> r_i, pairwise non-overlapping, added in a solver-chosen order
        edits = []
        for i in range(n):
            a = sym_int("a%d" % i, 0, L)
            b = sym_int("b%d" % i, 0, L)
            assume(a <= b)
            rl = choose("rl%d" % i, 3)
            r = sym_str("r%d" % i, rl)
            edits.append((a, b, r))
        for i in range(n):
            for j in range(i):
                ai, bi, _ = edits[i]
                aj, bj, _ = edits[j]
                # non-overlapping and not two insertions at the same point (order would be ambiguous)
                assume(((bi <= aj) | (bj <= ai)) & ~((ai == aj) & (bi == bj)) & ~((ai == bi) & (aj <= ai) & (ai < bj)) & ~((aj == bj) & (ai <= aj) & (aj < bi)))
                assume(~((ai == bi) & (ai == aj)) & ~((aj == bj) & (aj == ai)))
        order = list(range(n))
        perm = []
        left = list(order)
        for i in range(n):
            perm.append(left.pop(choose("ord%d" % i, len(left))))
        cc = codeanalyze.ChangeCollector(text)
        for i in perm:
            a, b, r = edits[i]
            cc.add_change(a, b, r)
        got = cc.get_changed()
        # specification: splice in increasing position order (positions are concrete after the forks below)
        conc = sorted(((a.__index__() if not isinstance(a, int) else a, b.__index__() if not isinstance(b, int) else b, r) for a, b, r in edits), key=lambda e: (e[0], e[1]))
        out = SymStr(())
        last = 0
        for a, b, r in conc:
            out = tosym(out + tosym(text)[last:a] + r) if L else tosym(out + r)
            last = b
        out = tosym(out + (tosym(text)[last:] if L else ""))
        exp = out
        if got is None:
            ok = (tosym(exp) == text) if (len(exp) == len(text)) else False
        else:
            ok = (tosym(got) == exp) if len(tosym(got)) == len(exp) else False
        f_ = h.require(ok, "collector_splice", "ChangeCollector result differs from the splice of the edits", text=text, edits=[[a, b, r] for a, b, r in edits], order=perm)
        return f_ or h.sample(text=text, edits=[[a, b, r] for a, b, r in edits], order=perm)

    return run


def run_instance(name, params, seconds):
    run = make_rename(params) if params["kind"] == "rename" else make_collector(params)
    return h.explore_instance(run, seconds)
