"""C08 judge (plain Python): at a concrete source, compare rope's patched AST with the
interpreter's own node positions."""
import ast
import warnings

warnings.simplefilter("ignore")


class _Load(ast.NodeTransformer):
    def visit_Store(self, n):
        return ast.Load()

    visit_Del = visit_Store


def _dump(n):
    import copy

    return ast.dump(_Load().visit(copy.deepcopy(n)))


def _has_slice(n):
    return any(isinstance(x, ast.Slice) for x in ast.walk(n) if x is not n and not isinstance(x, ast.Subscript)) and not isinstance(n, ast.Subscript) or (
        isinstance(n, ast.Tuple) and any(isinstance(e, ast.Slice) for e in n.elts))


def check(src, node, written):
    """node: rope-patched tree of src (regions as ints); returns list of problems"""
    problems = []
    if written != src:
        problems.append("roundtrip: write_ast differs from the source")
    return problems + check_regions(src, node)


def check_regions(src, node):
    problems = []
    real = ast.parse(src)
    starts = [0]
    for i, ch in enumerate(src):
        if ch == "\n":
            starts.append(i + 1)

    src_lines = src.split("\n")

    def pos(ln, col):
        # ast columns are utf-8 byte offsets: convert to characters
        line = src_lines[ln - 1].encode("utf-8")
        return starts[ln - 1] + len(line[:col].decode("utf-8", errors="ignore"))

    def walk(sn, rn, parent_region, in_fstring=False):
        reg = getattr(sn, "region", None)
        if reg is not None:
            a, b = int(reg[0]), int(reg[1])
            if parent_region is not None and not (parent_region[0] <= a and b <= parent_region[1]):
                problems.append("containment[%s]: region %s outside parent %s" % (type(rn).__name__, (a, b), parent_region))
            if isinstance(rn, (ast.expr, ast.stmt)) and hasattr(rn, "end_col_offset") and not isinstance(rn, ast.JoinedStr.__mro__[0] if False else ()):
                exp = (pos(rn.lineno, rn.col_offset), pos(rn.end_lineno, rn.end_col_offset))
                if isinstance(rn, (ast.FunctionDef, ast.AsyncFunctionDef, ast.ClassDef)) and rn.decorator_list:
                    exp = (min(exp[0], min(pos(d.lineno, d.col_offset) - 1 for d in rn.decorator_list)), exp[1])
                if (a, b) != exp:
                    problems.append("region[%s]: rope %r, interpreter %r" % (type(rn).__name__, src[a:b], src[exp[0]:exp[1]]))
                elif isinstance(rn, ast.expr) and not isinstance(rn, (ast.Starred, ast.Slice, ast.FormattedValue)) and not _has_slice(rn) and not in_fstring:
                    seg = src[a:b]
                    try:
                        back = ast.parse("(" + seg + "\n)", mode="eval").body
                        if _dump(back) != _dump(rn):
                            problems.append("reparse[%s]: %r parses to a different node" % (type(rn).__name__, seg))
                    except SyntaxError:
                        problems.append("reparse[%s]: %r does not parse" % (type(rn).__name__, seg))
            parent_region = (a, b)
        elif isinstance(rn, (ast.expr, ast.stmt)) and not in_fstring:
            # every statement and expression has to be annotated: refactorings read .region of any of them
            problems.append("unannotated[%s]: line %d has no region" % (type(rn).__name__, rn.lineno))
        for (f1, v1), (f2, v2) in zip(ast.iter_fields(sn), ast.iter_fields(rn)):
            inner = in_fstring or isinstance(rn, ast.JoinedStr)
            if isinstance(v1, ast.AST) and isinstance(v2, ast.AST):
                walk(v1, v2, parent_region, inner)
            elif isinstance(v1, list) and isinstance(v2, list):
                for x, y in zip(v1, v2):
                    if isinstance(x, ast.AST) and isinstance(y, ast.AST):
                        walk(x, y, parent_region, inner)

    walk(node, real, None)
    return problems
