"""Generic replay for the behavioural refactoring harnesses: perform the operation on
un-instrumented rope with the real file system and judge the result."""
import os
import shutil
from rope.base import project as rproject
import rope.base.exceptions as rex
from harness import refops, bref_judge
from harness.c02_replay import materialise
from harness.c01_replay import read_all


def replay_with(f, post=None, check_imports=True):
    w = f["witness"]
    files, op, entry = w["files"], w["op"], w.get("entry", "main.py")
    prop = w.get("prop", "C00").lower()
    tmp = materialise(files)
    try:
        proj = rproject.Project(tmp, ropefolder=None, **(op.get("prefs") or {}))
        try:
            changes = refops.perform(proj, op)
            if changes is not None:
                proj.do(changes)
        except rex.ModuleSyntaxError as e:
            from oracles import runprog

            if runprog.compiles(files) is None:
                return dict(reproduced=True, signature="%s:%s:%s:generated_code_does_not_parse:%s" % (prop, w["skeleton"], op["api"], w.get("partition", "")), detail="%s on %r (a project that parses) raised ModuleSyntaxError: %s" % (op, files, e))
            return dict(reproduced=False, signature="", detail="the project itself does not parse")
        except rex.RopeError as e:
            return dict(reproduced=False, signature="", detail="refused: %s" % e)
        except Exception as e:
            return dict(reproduced=True, signature="%s:%s:%s:internal:%s" % (prop, w["skeleton"], op["api"], type(e).__name__), detail="%s on %r raised %s: %s" % (op, files, type(e).__name__, e))
        finally:
            proj.close()
        after = read_all(tmp)
        verdict, detail = bref_judge.judge(files, after, entry, check_imports=check_imports, entry_after=op.get("entry_after"))
        if verdict == "ok" and post is not None:
            verdict, detail = post(files, after, op)
        if verdict == "ok":
            return dict(reproduced=False, signature="", detail="behaviour preserved")
        flags = "".join("+" + k.rstrip("_") for k in ("global_", "similar", "remove", "only_current") if op.get(k) is True)
        if "start" in op and "end" in op:
            import ast as _ast

            text = files[op["path"]][op["start"]:op["end"]]
            if text.isidentifier():
                flags += ":region=name"
            else:
                try:
                    _ast.parse(text.strip(), mode="eval")
                    flags += ":region=expr"
                except SyntaxError:
                    flags += ":region=stmts"
        if verdict == "behaviour_changed":
            from oracles import runprog

            flags += ":after=%s" % (runprog.run(after, op.get("entry_after") or entry)[1],)
        return dict(reproduced=True, signature="%s:%s:%s%s:%s:%s" % (prop, w["skeleton"], op["api"], flags, verdict, w.get("partition", "")), detail="%s on %r gives %r: %s" % (op, files, after, detail))
    finally:
        shutil.rmtree(tmp, ignore_errors=True)


def replay(f):
    return replay_with(f)


def manifestation(sig):
    """how a failure shows: the exception type of the refactored program, 'output' for a silently
    different result, or the verdict (does_not_parse, import_fails, ...).  A root-cause tag explains a
    failure only together with a manifestation it is known to have, so a new way of failing in the
    same syntactic situation is not absorbed by an old finding."""
    import re as _re

    m = _re.search(r":after=([A-Za-z_:]+):behaviour_changed", sig)
    if m:
        return "output" if m.group(1) == "None" else m.group(1)
    for v in ("does_not_parse", "import_fails", "generated_code_does_not_parse", "internal", "not_removed"):
        if ":" + v in sig:
            return v
    return "other"
