"""Pattern B plumbing shared by the pipeline harnesses: skeletons with identifier slots, symbolic
spellings with the A2 exclusions, forced equality partition, witnesses, oracles (DESIGN.md §3.2)."""
import builtins
import keyword
import re
from rsx import shims

shims.boot()
from rsx import core, h, loader  # noqa: E402
from rsx.core import assume, choose, PathAbort, Unsupported  # noqa: E402
from rsx.symstr import sym_str, tosym, SymStr, concretize  # noqa: E402
from rsx.proj import SymProject, build, slot_offsets, apply_changes  # noqa: E402
from oracles import runprog  # noqa: E402
import rope.base.exceptions as rex  # noqa: E402

IDENT = re.compile(r"[A-Za-z_][A-Za-z_0-9]*")


class Skeleton:
    def __init__(self, name, files, entry="main.py", lens=None, tags=()):
        self.name = name
        self.files = files  # {path: template}
        self.entry = entry
        ks = [int(x) for t in files.values() for x in re.findall(r"\{(\d+)\}", t)]
        self.nslots = 1 + max(ks) if ks else 0
        self.lens = lens or {}
        self.tags = tags
        concrete = set()
        for t in files.values():
            concrete |= set(IDENT.findall(re.sub(r"\{\d+\}", " ", t)))
        self.concrete = concrete


def with_len2(sk, slot):
    """the same skeleton with slot `slot` spelled with two symbolic letters (thorough tiers): names can
    then be proper prefixes / substrings of each other and of concrete words, which is what rope's
    textual occurrence scanners have to tell apart"""
    if slot is None:
        return sk
    lens = dict(sk.lens)
    lens[slot] = 2
    return Skeleton(sk.name, sk.files, sk.entry, lens, sk.tags)


def len2_variants(sk, tier):
    """[(suffix, slot-or-None)]: quick = the skeleton as written; thorough adds one variant per slot"""
    out = [("", None)]
    if tier == "thorough":
        out += [(".len2s%d" % k, k) for k in range(sk.nslots) if sk.lens.get(k, 1) == 1]
    return out


def reserved_for(sk, extra=()):
    """A2: spellings a slot may never take (same-length only matters)"""
    r = set(sk.concrete) | set(keyword.kwlist) | set(getattr(keyword, "softkwlist", [])) | set(dir(builtins)) | set(extra)
    r |= {s for s in loader.STRING_CONSTANTS if s.isidentifier()}
    return r


def consts_by_len(sk, extra=()):
    out = {}
    for s in reserved_for(sk, extra) | set(loader.STRING_CONSTANTS):
        out.setdefault(len(s), set()).add(s)
    return out


def slot_alphabet(sk, res):
    """A2 (refined): a small alphabet per skeleton that still realises every equality pattern and
    every distinction rope's scanners make on a letter: enough 'plain' letters (not occurring in the
    skeleton's concrete text, not a string-prefix letter), plus the string-prefix letter 'b', plus
    one letter that starts a concrete word of the skeleton (so that a name can be a prefix of / occur
    inside other text).  Keeps the path count down without removing a class of spellings."""
    text = "".join(sk.files.values())
    text = re.sub(r"\{\d+\}", " ", text)
    used = set(text)
    banned1 = {x for x in res if len(x) == 1}
    plain = [c for c in "acdeghjkmnoqstvwxyz" if c not in used and c not in banned1 and c not in "bfru"]
    if len(plain) < sk.nslots + 1:
        plain += [c for c in "acdeghjkmnoqstvwxyz" if c not in plain and c not in banned1][: sk.nslots + 1 - len(plain)]
    letters = plain[: sk.nslots + 1]
    if "b" not in banned1:
        letters.append("b")
    starts = [w[0] for w in IDENT.findall(text) if w[0].islower() and w[0] not in banned1 and w[0] not in letters]
    if starts:
        letters.append(starts[0])
    return sorted(set(letters))


def make_names(sk, extra_reserved=(), alphabet=None, prefix="n"):
    res = reserved_for(sk, extra_reserved)
    letters = slot_alphabet(sk, res)
    rng = alphabet or [(ord(c), ord(c)) for c in letters]
    names = []
    for i in range(sk.nslots):
        L = sk.lens.get(i, 1)
        names.append(sym_str("%s%d" % (prefix, i), L, ranges=rng, exclude=[x for x in res if len(x) == L]))
    return names


def force_partition(names):
    """pairwise comparisons: afterwards the path lies inside exactly one equality pattern"""
    pat = list(range(len(names)))
    for i in range(len(names)):
        for j in range(i):
            if len(names[i]) == len(names[j]) and bool(names[i] == names[j]):
                pat[i] = pat[j]
                break
    return pat


def partition_sig(pat):
    groups = {}
    for i, g in enumerate(pat):
        groups.setdefault(g, []).append(i)
    return "/".join("=".join(map(str, v)) for v in sorted(groups.values()))


def instantiate(sk, names):
    return {p: build(t, names) for p, t in sk.files.items()}


def cfiles(files, model):
    return {p: concretize(t, model) for p, t in files.items()}


def program_ok(cf):
    """compile-time validity of every module (depends on the equality pattern only)"""
    return runprog.compiles(cf) is None


def occurrences_of_slots(sk, names):
    """[(path, slot, offset)] for every slot occurrence"""
    out = []
    for p, t in sk.files.items():
        for k, off in slot_offsets(t, names):
            out.append((p, k, off))
    return out


def end_of_path(sk, extra=()):
    """§2.5 hash discipline, checked after the fact"""
    bad = core.ENGINE.check_hash_discipline(consts_by_len(sk, extra))
    if bad:
        raise Unsupported("hash discipline: a hashed symbolic string may equal a concrete constant: %s" % bad)


def run_pair(before, after, entry):
    """(same?, detail) comparing stdout and exception type of the two programs"""
    rb = runprog.run(before, entry)
    ra = runprog.run(after, entry)
    if rb != ra:
        return False, "before: %r  after: %r" % (rb, ra)
    return True, ""
