"""Oracle for C06 (plain Python): run the original and the rewritten def+call with the interpreter."""
import ast

ENV = {}
for i in range(8):
    ENV["v%d" % i] = 100 + i
    ENV["w%d" % i] = 150 + i
    ENV["d%d" % i] = 200 + i
ENV["ad"] = 300
for i in range(3):
    ENV["nd%d" % i] = 400 + i
    ENV["nv%d" % i] = 500 + i
ENV_NAMES = sorted(ENV)


def run(defn, call):
    env = dict(ENV)
    exec("def %s:\n    return dict(locals())" % defn, env)
    return eval(call, env)


def _def_names(defn):
    fn = ast.parse("def %s: pass" % defn).body[0]
    return [a.arg for a in fn.args.posonlyargs + fn.args.args], fn.args.vararg is not None, fn.args.kwarg is not None


def judge(deftext, calltext, newdef, newcall, desc, addnames):
    """returns (verdict, detail); verdict in ok / bad / invalid-request"""
    try:
        before = run(deftext, calltext)
    except TypeError as e:
        return "invalid-request", "call does not bind before the change: %s" % e
    names, star, kw = _def_names(deftext)
    call = ast.parse(calltext).body[0].value
    npos = len(call.args)
    kwnames = [k.arg for k in call.keywords]
    supplied = set(names[:npos]) | {n for n in kwnames if n in names}
    star_supplied = npos > len(names)
    kw_supplied = any(n not in names for n in kwnames)
    # simulate the evolution of the parameter list to know what each changer refers to
    cur = list(names)
    cur_star, cur_kw = star, kw
    added = {}
    removed = set()
    try:
        newnames, _, _ = _def_names(newdef)
    except SyntaxError as e:
        return "bad", "rewritten definition %r is not valid syntax: %s" % (newdef, e)
    for d in desc:
        if d[0] == "remove":
            idx = d[1]
            if idx < len(cur):
                name = cur.pop(idx)
                removed.add(name)
                if name in supplied and name not in added:
                    return "invalid-request", "removed parameter %s is supplied by the call" % name
                added.pop(name, None)
            elif idx == len(cur) and cur_star:
                cur_star = False
                if star_supplied:
                    return "invalid-request", "removed *args is supplied by the call"
            else:
                cur_kw = False
                if kw_supplied:
                    return "invalid-request", "removed **kwargs is supplied by the call"
        elif d[0] == "add":
            idx, mode = d[1], d[2]
            # the added name is whatever is new at that index in the final/current list; recover from newdef later
            cur.insert(idx, None)
            added[len(added)] = (idx, mode)
        elif d[0] == "reorder":
            cur = [cur[i] for i in d[1]]
    # names added = names in newdef not in original names
    new_only = [n for n in newnames if n not in names]
    if kw and any(n in before.get("k", {}) for n in new_only):
        return "invalid-request", "added parameter name is used as a **kwargs key by the call"
    try:
        after = run(newdef, newcall)
    except (TypeError, SyntaxError, NameError) as e:
        return "bad", "original %s / %s ; rewritten %s / %s raises %s: %s" % (deftext, calltext, newdef, newcall, type(e).__name__, e)
    problems = []
    for n, v in after.items():
        if n in before and n not in removed:
            if before[n] != v:
                problems.append("%s: %r -> %r" % (n, before[n], v))
    for ci, d in enumerate(desc):
        if d[0] != "add":
            continue
        n = addnames.get(ci, addnames.get(str(ci)))
        if n is None or n not in after or (n in names and n not in removed):
            continue
        later = any(e[0] == "add" and j > ci and addnames.get(j, addnames.get(str(j))) == n for j, e in enumerate(desc))
        if later:
            continue
        exp = ENV["nv%d" % ci] if d[2] in (1, 2) else ENV["nd%d" % ci]
        if after[n] != exp:
            problems.append("added %s: expected %r got %r" % (n, exp, after[n]))
    if problems:
        return "bad", "original %s / %s ; rewritten %s / %s : %s" % (deftext, calltext, newdef, newcall, "; ".join(problems))
    return "ok", ""
