"""C06 — signature changes keep every call bound to the same parameter values (DESIGN.md §5 C06).

Kernel (mapping algebra): the real DefinitionInfo._read, CallInfo.read (through
_FunctionChangers.change_call), ArgumentMapping, every _ArgumentChanger and to_call_info /
to_string run on definition and call texts whose parameter and keyword names are symbolic."""
from rsx import shims

shims.boot()
from rsx import core, h  # noqa: E402
from rsx.core import assume, choose, PathAbort  # noqa: E402
from rsx.symstr import sym_str, tosym, SymStr, concretize  # noqa: E402
from rope.refactor import functionutils, change_signature as cs  # noqa: E402
import rope.base.exceptions as rex  # noqa: E402
from harness.c06_oracle import judge, ENV_NAMES  # noqa: E402

PROPERTY = "C06"
INSTANCE_SECONDS = {"quick": 600, "thorough": 3000}
EXPLANATION = (
    "Definition shape (0..K parameters, which have defaults, *args / **kwargs) and changer pipeline shape are "
    "enumerated; parameter names and the keyword names used at the call are symbolic letters (every coincidence "
    "pattern is a solver-explored path), the number of positional arguments, the keywords present, and every changer "
    "argument (index, permutation, added name, default/value presence, autodef) are solver-split integers. The "
    "definition and call texts are rewritten by rope's real code; at the path witness both the original and the "
    "rewritten def/call are executed by the interpreter and every surviving parameter must receive the same value."
)
ASSUMPTIONS = [
    "A2/A3: names are single letters distinct from the concrete value tokens; the oracle (running def+call) is invariant under injective renaming",
    "requests are valid: the call binds under Python's rules before the change; a reorder is a permutation and yields a syntactically valid order (or autodef is given); an added parameter has a default or a value and lands at a valid position; a removed parameter is not supplied by the call (the property says 'removing an unused' parameter)",
    "call-site *args/**kwargs splats are not generated",
]
OUTSIDE = "more than K parameters, keyword-only / positional-only parameters, splats at the call site, pipelines longer than 2"
BOUNDS = {"quick": {"K": 2, "max_kw": 2, "pipeline2_K": 1}, "thorough": {"K": 3, "max_kw": 2, "pipeline2_K": 2}}

RESERVED = tuple(ENV_NAMES) + ("f", "a", "k")


def def_shapes(K):
    out = []
    for k in range(K + 1):
        for nd in range(k + 1):  # nd trailing params have defaults
            for star in (False, True):
                for kw in (False, True):
                    out.append((k, nd, star, kw))
    return out


def instances(tier):
    from harness import c06b

    b = BOUNDS[tier]
    out = list(c06b.instances(tier))
    for (k, nd, star, kw) in def_shapes(b["K"]):
        for kind in ("norm", "remove", "add", "inline", "reorder"):
            mk = 1 if (kind == "add" and k >= 2) or k >= 3 else b["max_kw"]
            out.append(("1.%s.k%d.d%d.%s%s" % (kind, k, nd, "s" if star else "", "w" if kw else ""), dict(k=k, nd=nd, star=star, kw=kw, pipe=[kind], max_kw=mk)))
        if k <= b["pipeline2_K"]:
            for k1 in ("remove", "add", "inline", "reorder"):
                for k2 in ("remove", "add", "inline", "reorder", "norm"):
                    out.append(("2.%s+%s.k%d.d%d.%s%s" % (k1, k2, k, nd, "s" if star else "", "w" if kw else ""), dict(k=k, nd=nd, star=star, kw=kw, pipe=[k1, k2], max_kw=min(1, b["max_kw"]))))
    return out


class StubFunction:
    def get_kind(self):
        return "function"


def _perm(name, n):
    """a permutation of range(n), chosen by solver-split integers"""
    left = list(range(n))
    out = []
    for i in range(n):
        j = choose("%s%d" % (name, i), len(left))
        out.append(left.pop(j))
    return out


def make_run(p):
    k, nd, star, kw = p["k"], p["nd"], p["star"], p["kw"]

    def run():
        names = [sym_str("p%d" % i, 1, ranges=((97, 122),), exclude=RESERVED) for i in range(k)]
        for i in range(k):
            for j in range(i):
                assume(names[i] != names[j])
        # definition text
        parts = []
        flags = []
        for i in range(k):
            has_def = i >= k - nd
            flags.append(has_def)
            parts.append(names[i] + ("=d%d" % i) if has_def else names[i])
        if star:
            parts.append("*a")
        if kw:
            parts.append("**k")
        deftext = tosym("f(") + tosym(", ").join(parts) + ")" if parts else "f()"
        # call text
        npos = choose("npos", k + 2 if star else k + 1)
        nkw = choose("nkw", p["max_kw"] + 1)
        kws = [sym_str("kw%d" % i, 1, ranges=((97, 122),), exclude=RESERVED) for i in range(nkw)]
        for i in range(nkw):
            for j in range(i):
                assume(kws[i] != kws[j])
            for n_ in names:
                bool(kws[i] == n_)  # force the coincidence pattern
        # the call must bind under Python's rules before the change (decided on the coincidence
        # pattern, whose comparisons are already cached decisions)
        supplied = set(range(min(npos, k)))
        kw_extra = False
        for i in range(nkw):
            hit = None
            for j in range(k):
                if bool(kws[i] == names[j]):
                    hit = j
            if hit is None:
                if not kw:
                    raise PathAbort("unexpected keyword")
                kw_extra = True
            elif hit in supplied:
                raise PathAbort("multiple values")
            else:
                supplied.add(hit)
        if any(j not in supplied and not flags[j] for j in range(k)):
            raise PathAbort("missing argument")
        star_supplied = npos > k
        cargs = ["v%d" % i for i in range(npos)] + [kws[i] + ("=w%d" % i) for i in range(nkw)]
        calltext = tosym("f(") + tosym(", ").join(cargs) + ")" if cargs else "f()"
        # changers
        changers = []
        desc = []
        addnames = {}
        cur_flags = list(flags)
        cur_ids = list(range(k))  # which original parameter sits at each position (None: added)
        cur_star, cur_kw = star, kw
        for ci, kind in enumerate(p["pipe"]):
            n = len(cur_flags)
            if kind == "norm":
                changers.append(cs.ArgumentNormalizer())
                desc.append(["norm"])
            elif kind == "remove":
                idx = choose("ri%d" % ci, n + int(cur_star) + int(cur_kw))
                if n + int(cur_star) + int(cur_kw) == 0:
                    raise PathAbort()
                changers.append(cs.ArgumentRemover(idx))
                desc.append(["remove", idx])
                if idx < n:
                    if cur_ids[idx] is not None and cur_ids[idx] in supplied:
                        raise PathAbort("removed parameter is supplied by the call")
                    del cur_flags[idx]
                    del cur_ids[idx]
                elif idx == n and cur_star:
                    if star_supplied:
                        raise PathAbort("removed *args is supplied")
                    cur_star = False
                else:
                    if kw_extra:
                        raise PathAbort("removed **kwargs is supplied")
                    cur_kw = False
            elif kind == "add":
                idx = choose("ai%d" % ci, n + 1)
                mode = choose("am%d" % ci, 3)  # 0: default only, 1: value only, 2: both
                newname = sym_str("new%d" % ci, 1, ranges=((97, 122),), exclude=RESERVED)
                for n_ in names + kws:
                    bool(newname == n_)
                default = "nd%d" % ci if mode in (0, 2) else None
                value = "nv%d" % ci if mode in (1, 2) else None
                changers.append(cs.ArgumentAdder(idx, newname, default, value))
                addnames[ci] = newname
                desc.append(["add", idx, mode])
                cur_flags.insert(idx, default is not None)
                cur_ids.insert(idx, None)
            elif kind == "inline":
                if n == 0:
                    raise PathAbort()
                idx = choose("ii%d" % ci, n)
                changers.append(cs.ArgumentDefaultInliner(idx))
                desc.append(["inline", idx])
            elif kind == "reorder":
                if n < 2:
                    raise PathAbort()
                perm = _perm("perm%d_" % ci, n)
                auto = choose("auto%d" % ci, 2)
                changers.append(cs.ArgumentReorderer(perm, autodef="ad" if auto else None))
                desc.append(["reorder", perm, auto])
                cur_flags = [cur_flags[i] for i in perm]
                cur_ids = [cur_ids[i] for i in perm]
                if auto:
                    seen = False
                    for i, fl in enumerate(cur_flags):
                        seen = seen or fl
                        cur_flags[i] = seen
            # request validity: defaults must stay trailing
            if any(a and not b for a, b in zip(cur_flags, cur_flags[1:])):
                raise PathAbort("request yields invalid parameter order")
        try:
            definfo = functionutils.DefinitionInfo._read(StubFunction(), deftext)
            fc = cs._FunctionChangers(None, definfo, changers)
            newdef = fc.change_definition(deftext)
            newcall = fc.change_call(None, None, calltext)
        except rex.RefactoringError:
            return None  # refusal is always acceptable
        m = core.ENGINE.fresh_model()
        c = lambda x: concretize(x, m)  # noqa: E731
        verdict, detail = judge(c(deftext), c(calltext), c(newdef), c(newcall), desc, {ci: c(nm) for ci, nm in addnames.items()})
        if verdict == "invalid-request":
            raise PathAbort(detail)
        if verdict == "bad":
            return h.fail("binding_changed", detail, model=m, deftext=deftext, calltext=calltext, newdef=newdef, newcall=newcall, changers=desc)
        return h.sample(deftext=deftext, calltext=calltext, newdef=newdef, newcall=newcall, changers=desc)

    return run


def run_instance(name, params, seconds):
    if params.get("kind") == "pipeline":
        from harness import c06b

        return h.explore_instance(c06b.make_run(params), seconds)
    return h.explore_instance(make_run(params), seconds)
