"""Oracle for C01 (plain Python): parses, alpha-equivalence under pybind, same behaviour."""
from harness import c02_oracle
from oracles import runprog


def token_groups(bind):
    groups = {}
    for po, v in bind.items():
        key = v[0]
        if c02_oracle.statically_determined(key):
            groups.setdefault(key, set()).add(po)
    return {frozenset(g) for g in groups.values()}


def judge(before, after, path, off, entry):
    """returns (verdict, detail, signature hint); verdict 'ok' or a failure kind"""
    err = runprog.compiles(after)
    prog, bind = c02_oracle.analyse(before)
    determined, exp, key = c02_oracle.expected(bind, path, off)
    changed = set()
    for p in before:
        a, b = before[p], after.get(p)
        if b is None or len(a) != len(b):
            changed.add((p, -1))
            continue
        changed |= {(p, i) for i, (x, y) in enumerate(zip(a, b)) if x != y}
    changed_j = c02_oracle.judged(bind, changed)
    missing = exp - changed
    extra = changed_j - exp
    qname = bind[(path, off)][1] if (path, off) in bind else None
    ctx = set()
    for modname, (pth, col, is_pkg) in prog.mods.items():
        for t in col.tokens:
            if t[1] == qname:
                ctx |= {fl for fl in col.flags.get(t[0], ()) if fl in ("classfall",)}
                v = bind.get((pth, t[0]))
                if v is not None and v[0] is not None and v[0][0] == "ambiguous" and "classfall" not in col.flags.get(t[0], ()):
                    ctx.add("ambigimport")
    hint = "q=%s:m=%s:x=%s:ctx=%s" % (
        c02_oracle.classify(prog, bind, (path, off)),
        ",".join(sorted({c02_oracle.classify(prog, bind, x) for x in missing})),
        ",".join(sorted({c02_oracle.classify(prog, bind, x) for x in extra})),
        ",".join(sorted(ctx)))
    if err:
        return "does_not_parse", "renamed project does not parse: %s" % err, hint
    try:
        prog2, bind2 = c02_oracle.analyse(after)
    except SyntaxError as e:
        return "does_not_parse", str(e), hint
    g1, g2 = token_groups(bind), token_groups(bind2)
    if g1 != g2:
        return "not_alpha_equivalent", "identifier tokens are grouped into bindings differently after the rename (missing %s extra %s)" % (sorted(missing), sorted(extra)), hint
    rb = runprog.run(before, entry)
    ra = runprog.run(after, entry)
    if rb != ra:
        return "behaviour_changed", "before %r after %r" % (rb, ra), hint
    return "ok", "", hint
