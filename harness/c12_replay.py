"""Replay of C12 counterexamples on un-instrumented rope."""
import json
from rope.base import serializer


def _thaw(v):
    # witness values were JSON-ified: lists stand for lists AND tuples; rebuild from the repr instead
    return v


def replay(f):
    w = f["witness"]
    k = f["kind"]
    if k == "reopen_differs":
        from harness.c12_reopen_plain import scenario

        problems = scenario(w["ops"])
        return dict(reproduced=bool(problems), signature="reopen:%s" % (w["ops"],), detail="ops %s: %s" % (w["ops"], "; ".join(problems[:3])))
    if k.startswith("history_"):
        from harness.c12_history_plain import scenario as hist_scenario

        if "recipe" not in w:
            return dict(reproduced=None, signature="", detail="witness lacks the change recipe")
        try:
            problems = hist_scenario(w["recipe"], w["version"])
        except Exception as e:
            return dict(reproduced=True, signature="history-raised:%s:%r" % (type(e).__name__, w["recipe"]), detail="saving/loading the history %r (v%s) raised %s: %s" % (w["recipe"], w["version"], type(e).__name__, e))
        return dict(reproduced=bool(problems), signature="history:%r:v%s" % (w["recipe"], w["version"]), detail="history %r (serializer v%s): %s" % (w["recipe"], w["version"], "; ".join(problems)))
    if "value_repr" in w:
        value = eval(w["value_repr"], {"__builtins__": {}})  # produced by our own harness
    else:
        return dict(reproduced=None, signature="", detail="witness lacks value_repr")
    ver = w["version"]
    try:
        enc = serializer.python_to_json(value, ver)
    except ValueError as e:
        bad = "$" not in repr(value)
        return dict(reproduced=bad, signature="ser-refused:%r" % (value,), detail="python_to_json(%r, %d) raised ValueError: %s" % (value, ver, e))
    except Exception as e:
        return dict(reproduced=True, signature="ser-encode-raise:%s:%r" % (type(e).__name__, value), detail="python_to_json(%r, %d) raised %s: %s" % (value, ver, type(e).__name__, e))
    try:
        dec = serializer.json_to_python(json.loads(json.dumps(enc)))
    except Exception as e:
        return dict(reproduced=True, signature="ser-decode-raise:%s:%r" % (type(e).__name__, value), detail="round trip of %r (v%d) raised %s: %s" % (value, ver, type(e).__name__, e))

    def same(a, b):
        if type(a) is not type(b):
            return False
        if isinstance(a, (list, tuple)):
            return len(a) == len(b) and all(same(x, y) for x, y in zip(a, b))
        if isinstance(a, dict):
            return len(a) == len(b) and all(any(same(k, k2) and same(v, v2) for k2, v2 in b.items()) for k, v in a.items())
        return a == b

    ok = same(dec, value)
    return dict(reproduced=not ok, signature="ser-mismatch:%r:v%d" % (value, ver), detail="json round trip of %r (version %d) decoded to %r" % (value, ver, dec))
