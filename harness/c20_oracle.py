"""Oracle for C20 (plain Python): names visible at a cursor position under Python's scoping rules."""
import ast
import builtins
import keyword
import re
from oracles.pybind import Collector, Sc


def context(src, offset):
    """(dotted?, prefix): what is being completed at offset"""
    s = offset
    while s > 0 and (src[s - 1].isalnum() or src[s - 1] == "_"):
        s -= 1
    prefix = src[s:offset]
    j = s
    while j > 0 and src[j - 1] in " \t":
        j -= 1
    dotted = j > 0 and src[j - 1] == "."
    return dotted, prefix


def in_string_or_comment(src, offset):
    from oracles import toklex

    try:
        spans = toklex.string_comment_spans(src)
    except Exception:
        return None
    return any(a < offset <= b if k == "COMMENT" else a < offset < b for k, a, b in spans)


def visible(src, offset):
    """{name: first binding line or None}: names referable at `offset` (locals of the innermost
    function/class/module scope holding the offset, enclosing function scopes, module), following
    the language rule that class scopes are skipped from inside functions"""
    c = Collector(src)
    starts = c.starts

    def span(sc):
        n = sc.node
        if sc.kind == "module":
            return (0, len(src))
        return (starts[n.lineno - 1] + n.col_offset, starts[n.end_lineno - 1] + n.end_col_offset)

    cur = c.module
    changed = True
    while changed:
        changed = False
        for ch in cur.children:
            if ch.kind in ("function", "class"):
                a, b = span(ch)
                # the body (after the header line) belongs to the scope
                body_start = starts[ch.node.body[0].lineno - 1] if ch.node.body[0].lineno > ch.node.lineno else a
                if body_start <= offset <= b + 1 and offset > a:
                    cur = ch
                    changed = True
                    break
    names = {}

    def add(sc):
        for n in sc.bound:
            if n in sc.nonlocals or n in sc.globals_decl:
                continue
            lines = [src.count("\n", 0, t[0]) + 1 for t in c.tokens if t[2] is sc and t[1] == n and t[3] in ("bind", "param", "def", "import-as") and t[0] is not None]
            if n not in names:
                names[n] = (min(lines) if lines else None, sc.kind)

    add(cur)
    p = cur.parent
    inner_is_func = cur.kind == "function"
    while p is not None:
        if p.kind == "class" and cur.kind != "module":
            p = p.parent
            continue
        add(p)
        p = p.parent
    return names, cur.kind


def ok_name(name):
    return name in keyword.kwlist or hasattr(builtins, name)
