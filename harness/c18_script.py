"""The two sessions of a C18 history (plain rope API; shared by the instrumented harness and the
replay so that both perform exactly the same changes)."""
from rope.base import change

A0 = "def f(p):\n    return p\nx = f(1)\n"


def session1(p1, n, shape):
    for i in range(n):
        cs1 = change.ChangeSet("change %d" % i)
        cs1.add_change(change.ChangeContents(p1.get_file("a.py"), "def f(p):\n    return p\nx = f(%d)\n" % (i + 2)))
        p1.do(cs1)
    if shape == "resources":
        # a history that also creates, edits and (in the next session) removes a resource
        cs = change.ChangeSet("create b")
        cs.add_change(change.CreateFile(p1.root, "b.py"))
        cs.add_change(change.ChangeContents(p1.get_file("b.py"), "val = 1\n"))
        p1.do(cs)


def session2(p2, shape):
    cs = change.ChangeSet("second session")
    cs.add_change(change.ChangeContents(p2.get_file("a.py"), "def f(p):\n    return [p]\ny = f(1)\n"))
    if shape == "resources":
        cs.add_change(change.RemoveResource(p2.get_file("b.py")))
    p2.do(cs)
