"""Replay of C15 counterexamples on un-instrumented rope."""
import re
import shutil
from rope.base import project as rproject
from harness import c15_oracle, c15_judge
from harness.c02_replay import materialise


def replay(f):
    w = f["witness"]
    src = w["src"]
    tmp = materialise({"main.py": src})
    try:
        proj = rproject.Project(tmp, ropefolder=None)
        try:
            mod = proj.get_pymodule(proj.get_file("main.py"))
            rv = c15_judge.rope_view(mod, lambda x: x, c15_oracle.describe(src))
        except Exception as e:
            return dict(reproduced=True, signature="c15:%s:internal:%s" % (w["skeleton"], type(e).__name__), detail="scope analysis of %r raised %s: %s" % (src, type(e).__name__, e))
        finally:
            proj.close()
        problems = c15_judge.compare(src, rv)
        if not problems:
            return dict(reproduced=False, signature="", detail="rope agrees with the reference binder")
        cats = sorted({p.split(":")[0] for p in problems})
        return dict(reproduced=True, signature="c15:%s|%s" % (w["skeleton"], "|".join(cats)), detail="module %r: %s" % (src, " | ".join(problems[:6])))
    finally:
        shutil.rmtree(tmp, ignore_errors=True)
