"""Symbolic parse (DESIGN.md §2.4, A.4): symbolic characters are replaced by placeholder letters,
the real C parser/tokenizer runs on the placeholder text, and identifier fields are mapped back."""
import ast as _pyast
import tokenize as _tok
from .core import Unsupported
from .symstr import SymStr, SymBytes, mkstr, tosym

_real_parse = _pyast.parse
PLACEHOLDERS = "ABCDEFGHIJKLMNOPQRSTUVWXYZ"


def _table_for(cs):
    """choose, for this text, one placeholder letter per distinct symbolic character variable;
    letters already present as concrete characters of the text are not used"""
    present = {c for c in cs if isinstance(c, int)}
    free = [p for p in PLACEHOLDERS if ord(p) not in present]
    fwd = {}
    for c in cs:
        if not isinstance(c, int):
            k = c.get_id()
            if k not in fwd:
                if len(fwd) >= len(free):
                    raise Unsupported("more than %d distinct symbolic characters in one parse" % len(free))
                fwd[k] = (free[len(fwd)], c)
    return fwd


def placeholder_text(s, fwd=None):
    if isinstance(s, str):
        return s, {}
    if fwd is None:
        fwd = _table_for(s.cs)
    out = "".join(chr(c) if isinstance(c, int) else fwd[c.get_id()][0] for c in s.cs)
    back = {ph: var for ph, var in fwd.values()}
    return out, back


def _back(s, back):
    return mkstr([back.get(ch, None) if ch in back else ord(ch) for ch in s])


def sym_parse(source, filename="<string>", *a, **kw):
    if isinstance(source, SymBytes):
        source = source.decode("utf-8")
    if not isinstance(source, SymStr):
        return _real_parse(source, filename, *a, **kw)
    src, back = placeholder_text(source)
    if not src.endswith("\n"):
        src += "\n"
    tree = _real_parse(src, filename, *a, **kw)
    if not back:
        return tree
    for node in _pyast.walk(tree):
        for f, v in _pyast.iter_fields(node):
            if isinstance(v, str):
                if f == "kind" or f == "type_comment":
                    continue
                if any(ch in back for ch in v):
                    setattr(node, f, _back(v, back))
            elif isinstance(v, list) and v and all(isinstance(x, str) for x in v):
                setattr(node, f, [_back(x, back) if any(ch in back for ch in x) else x for x in v])
    return tree


def rope_ast_parse(source, filename="<string>", *args, **kwargs):
    """replacement for rope.base.ast.parse: same newline normalisation, symbolic-aware"""
    if isinstance(source, (SymStr, SymBytes)):
        if isinstance(source, SymBytes):
            source = source.decode("utf-8")
        s = tosym(source)
        if s.find("\r") != -1:
            s = tosym(tosym(s.replace("\r\n", "\n")).replace("\r", "\n"))
        try:
            return sym_parse(s, filename, *args, **kwargs)
        except (TypeError, ValueError) as e:
            error = SyntaxError()
            error.lineno = 1
            error.filename = filename
            error.msg = str(e)
            raise error
    return _ORIG_ROPE_PARSE(source, filename, *args, **kwargs)


_ORIG_ROPE_PARSE = None


class AstShim:
    """stands in for the stdlib `ast` module inside rope modules that import it directly"""

    def __getattr__(self, k):
        return getattr(_pyast, k)

    parse = staticmethod(sym_parse)


class TokenizeShim:
    def __getattr__(self, k):
        return getattr(_tok, k)

    @staticmethod
    def generate_tokens(readline):
        def rl():
            line = readline()
            if isinstance(line, SymStr):
                return placeholder_text(line)[0]
            return line

        return _tok.generate_tokens(rl)
