"""symre: a backtracking regex matcher over SymStr that reproduces CPython's leftmost,
priority-first semantics (DESIGN.md §2.4, A.3).  Drop-in replacement for the `re` module inside
instrumented rope modules; on plain `str` input with a plain `str` pattern it delegates to `re`."""
import re as _re
import re._parser as sre_parse
from re._constants import (
    LITERAL, NOT_LITERAL, ANY, IN, BRANCH, SUBPATTERN, MAX_REPEAT, MIN_REPEAT, AT, ASSERT,
    ASSERT_NOT, GROUPREF, NEGATE, RANGE, CATEGORY, MAXREPEAT,
    AT_BEGINNING, AT_BEGINNING_STRING, AT_END, AT_END_STRING, AT_BOUNDARY, AT_NON_BOUNDARY,
    CATEGORY_DIGIT, CATEGORY_NOT_DIGIT, CATEGORY_SPACE, CATEGORY_NOT_SPACE, CATEGORY_WORD,
    CATEGORY_NOT_WORD,
)
import z3
from .core import mkbool, Unsupported, SymInt, zb
from . import symstr as SS
from .symstr import SymStr, SymBytes, tosym, mkstr

try:
    from re._constants import POSSESSIVE_REPEAT, ATOMIC_GROUP
except ImportError:  # pragma: no cover
    POSSESSIVE_REPEAT = ATOMIC_GROUP = object()

# Unicode-mode \w \d \s tables for code points < 256 (str patterns); ASCII tables with re.A / bytes
U_WORD = SS._ranges_of(lambda ch: _re.match(r"\w", ch) is not None)
U_DIGIT = SS._ranges_of(lambda ch: _re.match(r"\d", ch) is not None)
U_SPACE = SS._ranges_of(lambda ch: _re.match(r"\s", ch) is not None)
A_WORD = SS.ASCII_ALNUM + [(95, 95)]
A_DIGIT = [(48, 57)]
A_SPACE = [(9, 13), (32, 32)]


class Matcher:
    def __init__(self, pattern, flags=0, is_bytes=False):
        self.pattern = pattern
        table = {}
        if isinstance(pattern, SymStr):
            out = []
            for c in pattern.cs:
                if isinstance(c, int):
                    out.append(chr(c))
                else:
                    ph = 0xE000 + len(table)
                    table[ph] = c
                    out.append(chr(ph))
            pattern = "".join(out)
        self._incache = {}
        self.p = sre_parse.parse(pattern, flags)
        if table:
            self._subst(self.p, table)
        self.flags = self.p.state.flags
        self.groupindex = dict(self.p.state.groupdict)
        self.groups = self.p.state.groups - 1
        ascii_mode = bool(self.flags & _re.A) or is_bytes
        self.WORD = A_WORD if ascii_mode else U_WORD
        self.DIGIT = A_DIGIT if ascii_mode else U_DIGIT
        self.SPACE = A_SPACE if ascii_mode else U_SPACE
        if self.flags & _re.I:
            raise Unsupported("re.IGNORECASE")

    def _subst(self, sub, table):
        data = sub.data if hasattr(sub, "data") else sub
        for k, item in enumerate(data):
            if not isinstance(item, tuple):
                continue
            op, av = item
            if op in (LITERAL, NOT_LITERAL) and av in table:
                data[k] = (op, table[av])
            elif op is IN:
                for x in av:
                    if x[0] is LITERAL and x[1] in table:
                        raise Unsupported("symbolic char in class")
            elif op is BRANCH:
                for alt in av[1]:
                    self._subst(alt, table)
            elif op is SUBPATTERN:
                self._subst(av[3], table)
            elif op in (MAX_REPEAT, MIN_REPEAT):
                self._subst(av[2], table)
            elif op in (ASSERT, ASSERT_NOT):
                self._subst(av[1], table)

    def _cat(self, cat, c):
        neg = cat in (CATEGORY_NOT_DIGIT, CATEGORY_NOT_SPACE, CATEGORY_NOT_WORD)
        if cat in (CATEGORY_DIGIT, CATEGORY_NOT_DIGIT):
            r = SS._in_ranges(c, self.DIGIT)
        elif cat in (CATEGORY_SPACE, CATEGORY_NOT_SPACE):
            r = SS._in_ranges(c, self.SPACE)
        elif cat in (CATEGORY_WORD, CATEGORY_NOT_WORD):
            r = SS._in_ranges(c, self.WORD)
        else:
            raise Unsupported("category %s" % cat)
        return SS._not(r) if neg else r

    def _in(self, items, c):
        if not isinstance(c, int):
            key = (id(items), c.get_id())
            r = self._incache.get(key)
            if r is None:
                r = self._incache[key] = (c, self._in_uncached(items, c))
            return r[1]
        return self._in_uncached(items, c)

    def _in_uncached(self, items, c):
        neg = False
        conds = []
        for op, av in items:
            if op is NEGATE:
                neg = True
            elif op is LITERAL:
                conds.append(SS._ceq(c, av))
            elif op is RANGE:
                conds.append(SS._in_ranges(c, [av]))
            elif op is CATEGORY:
                conds.append(self._cat(av, c))
            else:
                raise Unsupported("in-item %s" % op)
        r = SS._or(conds)
        return SS._not(r) if neg else r

    def _isword(self, cs, i):
        if i < 0 or i >= len(cs):
            return False
        return SS._in_ranges(cs[i], self.WORD)

    def m(self, ops, i, cs, pos, end, g):
        """yield (newpos, groups) for matching ops[i:] at pos, in priority order"""
        if i == len(ops):
            yield pos, g
            return
        op, av = ops[i]

        def nxt(p, gg):
            return self.m(ops, i + 1, cs, p, end, gg)

        if op is LITERAL:
            if pos < end and mkbool(SS._ceq(cs[pos], av)):
                yield from nxt(pos + 1, g)
        elif op is NOT_LITERAL:
            if pos < end and not mkbool(SS._ceq(cs[pos], av)):
                yield from nxt(pos + 1, g)
        elif op is ANY:
            if pos < end and (self.flags & _re.S or not mkbool(SS._ceq(cs[pos], 10))):
                yield from nxt(pos + 1, g)
        elif op is IN:
            if pos < end and mkbool(self._in(av, cs[pos])):
                yield from nxt(pos + 1, g)
        elif op is BRANCH:
            for alt in av[1]:
                for p2, g2 in self.m(list(alt), 0, cs, pos, end, g):
                    yield from nxt(p2, g2)
        elif op is SUBPATTERN:
            gid, af, df, p = av
            if af or df:
                raise Unsupported("inline flags")
            for p2, g2 in self.m(list(p), 0, cs, pos, end, g):
                if gid is not None:
                    g2 = dict(g2)
                    g2[gid] = (pos, p2)
                yield from nxt(p2, g2)
        elif op in (MAX_REPEAT, MIN_REPEAT):
            lo, hi, p = av
            yield from self.rep(list(p), lo, hi, op is MAX_REPEAT, 0, cs, pos, end, g, nxt)
        elif op is AT:
            if av is AT_BEGINNING:
                if self.flags & _re.M:
                    ok = pos == 0 or mkbool(SS._ceq(cs[pos - 1], 10))
                else:
                    ok = pos == 0
            elif av is AT_BEGINNING_STRING:
                ok = pos == 0
            elif av is AT_END:
                if self.flags & _re.M:
                    ok = pos == len(cs) or mkbool(SS._ceq(cs[pos], 10))
                else:
                    ok = pos == len(cs) or (pos == len(cs) - 1 and mkbool(SS._ceq(cs[pos], 10)))
            elif av is AT_END_STRING:
                ok = pos == len(cs)
            elif av in (AT_BOUNDARY, AT_NON_BOUNDARY):
                a = self._isword(cs, pos - 1)
                b = self._isword(cs, pos)
                if isinstance(a, bool) and isinstance(b, bool):
                    x = a != b
                else:
                    x = bool(mkbool(z3.Xor(zb(a), zb(b))))
                ok = x if av is AT_BOUNDARY else not x
            else:
                raise Unsupported("AT %s" % av)
            if ok:
                yield from nxt(pos, g)
        elif op in (ASSERT, ASSERT_NOT):
            direction, p = av
            found = None
            if direction == 1:
                for p2, g2 in self.m(list(p), 0, cs, pos, len(cs), g):
                    found = g2
                    break
            else:
                lo, hi = p.getwidth()
                if lo != hi:
                    raise Unsupported("variable lookbehind")
                if pos - lo >= 0:
                    for p2, g2 in self.m(list(p), 0, cs, pos - lo, pos, g):
                        if p2 == pos:
                            found = g2
                            break
            if op is ASSERT and found is not None:
                yield from nxt(pos, found)
            elif op is ASSERT_NOT and found is None:
                yield from nxt(pos, g)
        elif op is GROUPREF:
            if av in g:
                a, b = g[av]
                sub = cs[a:b]
                if pos + len(sub) <= end and mkbool(
                    SS._and([SS._ceq(x, y) for x, y in zip(cs[pos : pos + len(sub)], sub)])
                ):
                    yield from nxt(pos + len(sub), g)
        else:
            raise Unsupported("regex op %s" % op)

    def rep(self, body, lo, hi, greedy, count, cs, pos, end, g, nxt, last=-1):
        can_more = hi is MAXREPEAT or count < hi

        def more():
            if can_more and (count < lo or pos != last):
                for p2, g2 in self.m(body, 0, cs, pos, end, g):
                    yield from self.rep(body, lo, hi, greedy, count + 1, cs, p2, end, g2, nxt, pos)

        if greedy:
            yield from more()
            if count >= lo:
                yield from nxt(pos, g)
        else:
            if count >= lo:
                yield from nxt(pos, g)
            yield from more()

    def match_at(self, s, pos, end, nonempty=False, full=False):
        for p2, g in self.m(list(self.p), 0, s.cs, pos, end, {}):
            if nonempty and p2 == pos:
                continue
            if full and p2 != end:
                continue
            return Match(self, s, pos, p2, g)
        return None


class Match:
    def __init__(self, matcher, s, a, b, g):
        self.re = matcher
        self.string = s
        self._a = a
        self._b = b
        self._g = g
        self.pos = 0
        self.endpos = len(s)

    def _gi(self, k):
        if isinstance(k, (str, SymStr)):
            k = self.re.groupindex[str(k)]
        return k

    def span(self, k=0):
        k = self._gi(k)
        if k == 0:
            return (self._a, self._b)
        return self._g.get(k, (-1, -1))

    def start(self, k=0):
        return self.span(k)[0]

    def end(self, k=0):
        return self.span(k)[1]

    def group(self, *ks):
        if not ks:
            ks = (0,)
        out = []
        for k in ks:
            a, b = self.span(k)
            out.append(None if a == -1 else mkstr(self.string.cs[a:b]))
        return out[0] if len(out) == 1 else tuple(out)

    def __getitem__(self, k):
        return self.group(k)

    def groups(self, default=None):
        return tuple(self.group(i + 1) if self.span(i + 1)[0] != -1 else default for i in range(self.re.groups))

    def groupdict(self, default=None):
        return {name: (self.group(idx) if self.span(idx)[0] != -1 else default) for name, idx in self.re.groupindex.items()}

    @property
    def lastindex(self):
        raise Unsupported("lastindex")


def _as_symstr(s):
    if isinstance(s, SymStr):
        return s
    if isinstance(s, SymBytes):
        return SymStr(s.bs)
    if isinstance(s, str):
        return SymStr(tuple(ord(c) for c in s))
    if isinstance(s, bytes):
        return SymStr(tuple(s))
    raise Unsupported("regex subject %r" % type(s))


_MATCHERS = {}


class Pattern:
    def __init__(self, pattern, flags=0):
        self.is_bytes = isinstance(pattern, (bytes, SymBytes))
        if isinstance(pattern, bytes):
            spat = pattern.decode("latin-1")
        else:
            spat = pattern
        self.pattern = pattern
        self._spat = spat
        self.flags = flags
        self._real = _re.compile(pattern, flags) if isinstance(pattern, (str, bytes)) else None
        self._m = None

    @property
    def mm(self):
        if self._m is None:
            sp = self._spat
            if isinstance(sp, str):
                key = (sp, self.flags & ~_re.U, self.is_bytes)
                m = _MATCHERS.get(key)
                if m is None:
                    if len(_MATCHERS) > 500:
                        _MATCHERS.clear()
                    m = _MATCHERS[key] = Matcher(sp, self.flags & ~_re.U, self.is_bytes)
                self._m = m
            else:
                self._m = Matcher(sp, self.flags & ~_re.U, self.is_bytes)
        return self._m

    def _concrete(self, s):
        return isinstance(s, (str, bytes)) and self._real is not None

    def _b(self, s, pos, endpos):
        n = len(s)
        pos = SS._idx(pos)
        endpos = n if endpos is None else min(SS._idx(endpos), n)
        if pos < 0:
            pos = 0
        return pos, max(endpos, 0)

    def _args(self, pos, endpos):
        return (SS._idx(pos),) + ((SS._idx(endpos),) if endpos is not None else ())

    def match(self, s, pos=0, endpos=None):
        if self._concrete(s):
            return self._real.match(s, *self._args(pos, endpos))
        s = _as_symstr(s)
        pos, endpos = self._b(s, pos, endpos)
        if pos > endpos:
            return None
        return self.mm.match_at(s, pos, endpos)

    def fullmatch(self, s, pos=0, endpos=None):
        if self._concrete(s):
            return self._real.fullmatch(s, *self._args(pos, endpos))
        s = _as_symstr(s)
        pos, endpos = self._b(s, pos, endpos)
        if pos > endpos:
            return None
        return self.mm.match_at(s, pos, endpos, full=True)

    def search(self, s, pos=0, endpos=None):
        if self._concrete(s):
            return self._real.search(s, *self._args(pos, endpos))
        s = _as_symstr(s)
        pos, endpos = self._b(s, pos, endpos)
        for i in range(pos, endpos + 1):
            m = self.mm.match_at(s, i, endpos)
            if m is not None:
                return m
        return None

    def finditer(self, s, pos=0, endpos=None):
        if self._concrete(s):
            yield from self._real.finditer(s, *self._args(pos, endpos))
            return
        s = _as_symstr(s)
        pos, endpos = self._b(s, pos, endpos)
        i = pos
        must_advance = False
        while i <= endpos:
            m = None
            j = i
            while j <= endpos:
                m = self.mm.match_at(s, j, endpos, nonempty=(must_advance and j == i))
                if m is not None:
                    break
                j += 1
            if m is None:
                return
            yield m
            must_advance = m.end() == m.start()
            i = m.end()

    def findall(self, s, pos=0, endpos=None):
        if self._concrete(s):
            return self._real.findall(s, *self._args(pos, endpos))
        out = []
        for m in self.finditer(s, pos, endpos):
            if self.mm.groups == 0:
                out.append(m.group())
            elif self.mm.groups == 1:
                out.append(m.group(1) if m.span(1)[0] != -1 else "")
            else:
                out.append(m.groups(""))
        return out

    def sub(self, repl, s, count=0):
        if self._concrete(s) and isinstance(repl, (str, bytes)):
            return self._real.sub(repl, s, count)
        if callable(repl):
            fn = repl
        else:
            if "\\" in str(repl) if not isinstance(repl, SymStr) else False:
                raise Unsupported("sub with escapes in template")
            fn = lambda m: repl  # noqa: E731
        ss = _as_symstr(s)
        out = SymStr(())
        last = 0
        n = 0
        for m in self.finditer(ss):
            out = tosym(out + mkstr(ss.cs[last : m.start()]) + fn(m))
            last = m.end()
            n += 1
            if count and n >= count:
                break
        return SS._rs(tosym(out + mkstr(ss.cs[last:])))

    def split(self, s, maxsplit=0):
        if self._concrete(s):
            return self._real.split(s, maxsplit)
        ss = _as_symstr(s)
        out = []
        last = 0
        n = 0
        for m in self.finditer(ss):
            out.append(mkstr(ss.cs[last : m.start()]))
            out.extend(m.groups())
            last = m.end()
            n += 1
            if maxsplit and n >= maxsplit:
                break
        out.append(mkstr(ss.cs[last:]))
        return out

    @property
    def groupindex(self):
        return self._real.groupindex if self._real is not None else self.mm.groupindex

    @property
    def groups(self):
        return self._real.groups if self._real is not None else self.mm.groups


def compile(pattern, flags=0):
    if isinstance(pattern, Pattern):
        return pattern
    if isinstance(pattern, _re.Pattern):
        return Pattern(pattern.pattern, pattern.flags & ~_re.U)
    if isinstance(pattern, SymStr) and pattern.concrete():
        pattern = str(pattern)
    if hasattr(flags, "value"):
        flags = int(flags)
    return Pattern(pattern, flags)


def match(p, s, flags=0):
    return compile(p, flags).match(s)


def fullmatch(p, s, flags=0):
    return compile(p, flags).fullmatch(s)


def search(p, s, flags=0):
    return compile(p, flags).search(s)


def finditer(p, s, flags=0):
    return compile(p, flags).finditer(s)


def findall(p, s, flags=0):
    return compile(p, flags).findall(s)


def sub(p, r, s, count=0, flags=0):
    return compile(p, flags).sub(r, s, count)


def split(p, s, maxsplit=0, flags=0):
    return compile(p, flags).split(s, maxsplit)


def escape(s):
    if isinstance(s, SymStr):
        out = SymStr(())
        special = [ord(c) for c in "()[]{}?*+-|^$\\.&~# \t\n\r\v\f"]
        for c in s.cs:
            if isinstance(c, int):
                out = tosym(out + _re.escape(chr(c)))
            else:
                if mkbool(SS._or([c == k for k in special])):
                    out = tosym(out + "\\")
                out = SymStr(out.cs + (c,))
        return SS._rs(out)
    return _re.escape(s)


error = _re.error
A = ASCII = _re.A
I = IGNORECASE = _re.I
M = MULTILINE = _re.M
S = _re.S
DOTALL = _re.S
X = VERBOSE = _re.X
U = UNICODE = _re.U
purge = _re.purge
RegexFlag = _re.RegexFlag
Match_ = _re.Match

def __getattr__(name):
    # anything else (re.S flag, re.Pattern type checks, ...) falls through to the real module
    return getattr(_re, name)
