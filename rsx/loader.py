"""Instrumenting loader: every rope.* module is compiled from /repo's *current working tree*
through a purely syntactic AST rewrite (DESIGN.md §2.3, A.2) so that rope's own code accepts
proxy values.  Nothing in /repo is edited."""
import ast
import sys
import builtins
import importlib.abc
import importlib.machinery

STRING_CONSTANTS = set()  # every str constant seen in rope's source (for the hash discipline, §2.5)


class T(ast.NodeTransformer):
    def __init__(self):
        self.cls = []

    def visit_ClassDef(self, node):
        self.cls.append(node.name)
        self.generic_visit(node)
        self.cls.pop()
        return node

    def visit_Constant(self, node):
        if isinstance(node.value, str) and len(node.value) <= 8:
            STRING_CONSTANTS.add(node.value)
        return node

    def _mangle(self, attr):
        if self.cls and attr.startswith("__") and not attr.endswith("__"):
            return "_" + self.cls[-1].lstrip("_") + attr
        return attr

    def visit_Compare(self, node):
        self.generic_visit(node)
        if len(node.ops) == 1 and isinstance(node.ops[0], (ast.In, ast.NotIn)):
            call = ast.Call(ast.Name("sx_in", ast.Load()), [node.left, node.comparators[0]], [])
            if isinstance(node.ops[0], ast.NotIn):
                call = ast.UnaryOp(ast.Not(), call)
            return ast.copy_location(call, node)
        return node

    def visit_BinOp(self, node):
        self.generic_visit(node)
        if isinstance(node.op, ast.Mod):
            return ast.copy_location(
                ast.Call(ast.Name("sx_mod", ast.Load()), [node.left, node.right], []), node
            )
        return node

    def visit_JoinedStr(self, node):
        self.generic_visit(node)
        parts = []
        for v in node.values:
            if isinstance(v, ast.FormattedValue):
                if v.conversion != -1 or v.format_spec is not None:
                    return node
                parts.append(v.value)
            else:
                parts.append(v)
        return ast.copy_location(ast.Call(ast.Name("sx_fstr", ast.Load()), parts, []), node)

    def visit_Call(self, node):
        self.generic_visit(node)
        f = node.func
        if (
            isinstance(f, ast.Attribute)
            and not any(isinstance(a, ast.Starred) for a in node.args)
            and not any(k.arg is None for k in node.keywords)
        ):
            if (
                isinstance(f.value, ast.Call)
                and isinstance(f.value.func, ast.Name)
                and f.value.func.id == "super"
            ):
                return node
            return ast.copy_location(
                ast.Call(
                    ast.Name("sx_callm", ast.Load()),
                    [f.value, ast.Constant(self._mangle(f.attr))] + node.args,
                    node.keywords,
                ),
                node,
            )
        if isinstance(f, ast.Name) and f.id in ("str", "len", "int", "ord", "repr", "sorted", "min", "max") and not node.keywords and len(node.args) == 1 and not isinstance(node.args[0], ast.Starred):
            if f.id in ("str", "int", "ord", "repr"):
                return ast.copy_location(
                    ast.Call(ast.Name("sx_" + f.id, ast.Load()), node.args, []), node
                )
        return node


class Loader(importlib.machinery.SourceFileLoader):
    def source_to_code(self, data, path, *, _optimize=-1):
        tree = ast.parse(data, path)
        tree = T().visit(tree)
        ast.fix_missing_locations(tree)
        return compile(tree, path, "exec", dont_inherit=True, optimize=_optimize)

    def get_code(self, fullname):
        path = self.get_filename(fullname)  # bypass the bytecode cache: always current source
        return self.source_to_code(self.get_data(path), path)


class Finder(importlib.abc.MetaPathFinder):
    def find_spec(self, fullname, path, target=None):
        if not (fullname == "rope" or fullname.startswith("rope.")):
            return None
        spec = importlib.machinery.PathFinder.find_spec(fullname, path, target)
        if spec is None or not isinstance(spec.loader, importlib.machinery.SourceFileLoader):
            return spec
        spec.loader = Loader(spec.loader.name, spec.loader.path)
        return spec


_installed = False
_PATH_MEMO = {}


def _key(x):
    from .symstr import SymStr

    if type(x) is SymStr:
        return ("S",) + tuple(c if isinstance(c, int) else ("z", c.get_id()) for c in x.cs)
    return x


def _path_cached(size):
    def deco(f):
        def wrapper(*a):
            from . import core

            E = core.ENGINE
            if E is None:
                return f(*a)
            k = (id(f),) + tuple(_key(x) for x in a)
            try:
                r = _PATH_MEMO.get(k)
            except TypeError:
                return f(*a)
            if r is None:
                r = _PATH_MEMO[k] = (a, f(*a))
            return r[1]

        wrapper.__wrapped__ = f
        return wrapper

    return deco


def install(disable_cache=True):
    """Install the loader.  Must run before the first `import rope`."""
    global _installed
    if _installed:
        return
    assert "rope" not in sys.modules, "rope imported before the instrumenting loader"
    from . import rt

    for name in ("sx_in", "sx_mod", "sx_fstr", "sx_callm", "sx_str", "sx_int", "sx_ord", "sx_repr"):
        setattr(builtins, name, getattr(rt, name))
    sys.meta_path.insert(0, Finder())
    _installed = True
    if disable_cache:
        import rope.base.utils as u

        # rope's cross-call memo would compare stale symbolic keys from a previous path; it is
        # replaced by a memo that lives for one path only and is keyed structurally
        u.cached = _path_cached
        from . import core

        core.PATH_START_HOOKS.append(_PATH_MEMO.clear)
