"""SymStr: a string whose characters are concrete code points or z3 Int terms; concrete length."""
import string as _string
import z3
from . import core
from .core import Unsupported, SymInt, SymBool, mkbool, mkint, zi

MAXCP = 256  # every symbolic character is constrained to 0 <= c < MAXCP (usually < 128) at creation


_CEQ_CACHE = {}


def _is_sym(c):
    return not isinstance(c, int)


def _zc(c):
    return core.intval(c) if isinstance(c, int) else c


def _ceq(a, b):
    ia = isinstance(a, int)
    ib = isinstance(b, int)
    if ia and ib:
        return a == b
    key = (a if ia else -a.get_id() - 1, b if ib else -b.get_id() - 1)
    r = _CEQ_CACHE.get(key)
    if r is None:
        if len(_CEQ_CACHE) > 1000000:
            _CEQ_CACHE.clear()
        _CEQ_CACHE[key] = r = (a, b, _zc(a) == _zc(b))
    return r[2]


def _and(conds):
    out = []
    for c in conds:
        if c is True:
            continue
        if c is False:
            return False
        out.append(c)
    if not out:
        return True
    return z3.And(*out) if len(out) > 1 else out[0]


def _or(conds):
    out = []
    for c in conds:
        if c is False:
            continue
        if c is True:
            return True
        out.append(c)
    if not out:
        return False
    return z3.Or(*out) if len(out) > 1 else out[0]


def _not(c):
    if isinstance(c, bool):
        return not c
    return z3.Not(c)


_RANGE_CACHE = {}


def _in_ranges(c, ranges):
    if isinstance(c, int):
        return any(lo <= c <= hi for lo, hi in ranges)
    key = (c.get_id(), tuple(ranges))
    r = _RANGE_CACHE.get(key)
    if r is None:
        t = _or([z3.And(c >= lo, c <= hi) if lo != hi else c == lo for lo, hi in ranges])
        if not isinstance(t, bool):
            t = z3.simplify(t)
        if len(_RANGE_CACHE) > 500000:
            _RANGE_CACHE.clear()
        _RANGE_CACHE[key] = r = (c, t)
    return r[1]



def _ranges_of(pred):
    out = []
    start = None
    for c in range(MAXCP + 1):
        ok = c < MAXCP and pred(chr(c))
        if ok and start is None:
            start = c
        elif not ok and start is not None:
            out.append((start, c - 1))
            start = None
    return out


# exact tables for code points < 256, computed from the running interpreter
ALNUM = _ranges_of(str.isalnum)
ALPHA = _ranges_of(str.isalpha)
DIGIT = _ranges_of(str.isdigit)
DECIMAL = _ranges_of(str.isdecimal)
NUMERIC = _ranges_of(str.isnumeric)
SPACE = _ranges_of(str.isspace)
UPPER = _ranges_of(str.isupper)
LOWER = _ranges_of(str.islower)
LINEBREAK = _ranges_of(lambda ch: len(("a" + ch + "b").splitlines()) == 2)
BYTES_LINEBREAK = [(10, 10), (13, 13)]
IDSTART = _ranges_of(lambda ch: ch.isidentifier())
IDCONT = _ranges_of(lambda ch: ("a" + ch).isidentifier())
ASCII_ALNUM = [(48, 57), (65, 90), (97, 122)]
ASCII_SPACE = [(9, 13), (32, 32)]


def tosym(s):
    if isinstance(s, SymStr):
        return s
    if isinstance(s, str):
        return SymStr(tuple(ord(c) for c in s))
    raise Unsupported("tosym %r" % type(s))


def _idx(i):
    if isinstance(i, SymInt):
        return i.__index__()
    if isinstance(i, SymBool):
        return int(bool(i))
    return i


class SymStr:
    __slots__ = ("cs",)

    def __init__(self, cs):
        self.cs = tuple(cs)

    def concrete(self):
        return not any(_is_sym(c) for c in self.cs)

    def __len__(self):
        return len(self.cs)

    def __iter__(self):
        for c in self.cs:
            yield mkstr((c,))

    def __getitem__(self, i):
        if isinstance(i, slice):
            s = slice(
                _idx(i.start) if i.start is not None else None,
                _idx(i.stop) if i.stop is not None else None,
                _idx(i.step) if i.step is not None else None,
            )
            return mkstr(self.cs[s])
        i = _idx(i)
        return mkstr((self.cs[i],))

    def _eqc(self, o):
        if isinstance(o, str):
            o = tosym(o)
        if not isinstance(o, SymStr):
            return None
        if len(o.cs) != len(self.cs):
            return False
        return _and([_ceq(a, b) for a, b in zip(self.cs, o.cs)])

    def __eq__(self, o):
        r = self._eqc(o)
        if r is None:
            return False
        return mkbool(r)

    def __ne__(self, o):
        r = self._eqc(o)
        if r is None:
            return True
        if isinstance(r, bool):
            return not r
        return mkbool(z3.Not(r))

    def _cmp(self, o):
        """returns -1/0/1 via forks (lexicographic on code points)"""
        o = tosym(o)
        for a, b in zip(self.cs, o.cs):
            if isinstance(a, int) and isinstance(b, int):
                if a != b:
                    return -1 if a < b else 1
                continue
            if mkbool(_zc(a) < _zc(b)):
                return -1
            if mkbool(_zc(a) > _zc(b)):
                return 1
        return (len(self.cs) > len(o.cs)) - (len(self.cs) < len(o.cs))

    def __lt__(self, o):
        if not isinstance(o, (str, SymStr)):
            return NotImplemented
        return self._cmp(o) < 0

    def __le__(self, o):
        if not isinstance(o, (str, SymStr)):
            return NotImplemented
        return self._cmp(o) <= 0

    def __gt__(self, o):
        if not isinstance(o, (str, SymStr)):
            return NotImplemented
        return self._cmp(o) > 0

    def __ge__(self, o):
        if not isinstance(o, (str, SymStr)):
            return NotImplemented
        return self._cmp(o) >= 0

    def __hash__(self):
        if self.concrete():
            return hash(str(self))
        if core.ENGINE is not None:
            core.ENGINE.hashed.append(self)
        return 0

    def __str__(self):
        if self.concrete():
            return "".join(map(chr, self.cs))
        raise Unsupported("str() of symbolic string")

    def __format__(self, spec):
        if self.concrete():
            return format(str(self), spec)
        raise Unsupported("format() of symbolic string")

    def __repr__(self):
        return "SymStr(%s)" % "".join(chr(c) if isinstance(c, int) else "?" for c in self.cs)

    def __add__(self, o):
        if isinstance(o, (str, SymStr)):
            return mkstr(self.cs + tosym(o).cs)
        return NotImplemented

    def __radd__(self, o):
        if isinstance(o, (str, SymStr)):
            return mkstr(tosym(o).cs + self.cs)
        return NotImplemented

    def __mul__(self, n):
        return mkstr(self.cs * _idx(n))

    __rmul__ = __mul__

    def __mod__(self, args):
        from .rt import sx_mod

        if not self.concrete():
            raise Unsupported("% on symbolic template")
        return sx_mod(str(self), args)

    def __contains__(self, sub):
        return self.find(sub) != -1

    def __bool__(self):
        return len(self.cs) > 0

    # --- searching
    def _match_at(self, sub, i):
        return _and([_ceq(a, b) for a, b in zip(self.cs[i : i + len(sub.cs)], sub.cs)])

    def _bounds(self, start, end):
        n = len(self.cs)
        start = 0 if start is None else _idx(start)
        end = n if end is None else _idx(end)
        if start < 0:
            start = max(0, start + n)
        if end < 0:
            end = max(0, end + n)
        return start, min(end, n)

    def find(self, sub, start=None, end=None):
        sub = tosym(sub)
        start, end = self._bounds(start, end)
        m = len(sub.cs)
        for i in range(start, end - m + 1):
            if mkbool(self._match_at(sub, i)):
                return i
        return -1

    def rfind(self, sub, start=None, end=None):
        sub = tosym(sub)
        start, end = self._bounds(start, end)
        m = len(sub.cs)
        for i in range(end - m, start - 1, -1):
            if mkbool(self._match_at(sub, i)):
                return i
        return -1

    def index(self, sub, start=None, end=None):
        r = self.find(sub, start, end)
        if r == -1:
            raise ValueError("substring not found")
        return r

    def rindex(self, sub, start=None, end=None):
        r = self.rfind(sub, start, end)
        if r == -1:
            raise ValueError("substring not found")
        return r

    def startswith(self, p, start=None, end=None):
        if isinstance(p, tuple):
            return any(self.startswith(x, start, end) for x in p)
        p = tosym(p)
        s, e = self._bounds(start, end)
        if len(p.cs) > e - s:
            return False
        return mkbool(self._match_at(p, s))

    def endswith(self, p, start=None, end=None):
        if isinstance(p, tuple):
            return any(self.endswith(x, start, end) for x in p)
        p = tosym(p)
        s, e = self._bounds(start, end)
        if len(p.cs) > e - s:
            return False
        return mkbool(self._match_at(p, e - len(p.cs)))

    def count(self, sub, start=None, end=None):
        sub = tosym(sub)
        n = 0
        i, end = self._bounds(start, end)
        if len(sub.cs) == 0:
            return end - i + 1
        while True:
            i = self.find(sub, i, end)
            if i == -1:
                return n
            n += 1
            i += len(sub.cs)

    # --- character classes (exact tables for code points < 256)
    def _all(self, ranges):
        if not self.cs:
            return False
        return mkbool(_and([_in_ranges(c, ranges) for c in self.cs]))

    def isalnum(self):
        return self._all(ALNUM)

    def isalpha(self):
        return self._all(ALPHA)

    def isdigit(self):
        return self._all(DIGIT)

    def isdecimal(self):
        return self._all(DECIMAL)

    def isnumeric(self):
        return self._all(NUMERIC)

    def isspace(self):
        return self._all(SPACE)

    def isascii(self):
        return mkbool(_and([_in_ranges(c, [(0, 127)]) for c in self.cs]))

    def _cased(self, mine, other):
        if not self.cs:
            return False
        any_mine = _or([_in_ranges(c, mine) for c in self.cs])
        none_other = _and([_not(_in_ranges(c, other)) for c in self.cs])
        return mkbool(_and([any_mine, none_other]))

    def isupper(self):
        return self._cased(UPPER, LOWER)

    def islower(self):
        return self._cased(LOWER, UPPER)

    def isidentifier(self):
        if not self.cs:
            return False
        return mkbool(_and([_in_ranges(self.cs[0], IDSTART)] + [_in_ranges(c, IDCONT) for c in self.cs[1:]]))

    def _casemap(self, frm, delta):
        out = []
        for c in self.cs:
            if isinstance(c, int):
                out.append(ord(chr(c).lower() if delta > 0 else chr(c).upper()) if c < 128 else c)
                if c >= 128:
                    raise Unsupported("case mapping of non-ASCII")
            else:
                if mkbool(_in_ranges(c, [(128, MAXCP)])):
                    raise Unsupported("case mapping of non-ASCII")
                out.append(z3.If(z3.And(c >= frm[0], c <= frm[1]), c + delta, c))
        return mkstr(out)

    def lower(self):
        return self._casemap((65, 90), 32)

    def upper(self):
        return self._casemap((97, 122), -32)

    def lstrip(self, chars=None):
        i = 0
        while i < len(self.cs) and self._strip_test(self.cs[i], chars):
            i += 1
        return mkstr(self.cs[i:])

    def rstrip(self, chars=None):
        j = len(self.cs)
        while j > 0 and self._strip_test(self.cs[j - 1], chars):
            j -= 1
        return mkstr(self.cs[:j])

    def strip(self, chars=None):
        return _rs(tosym(self.lstrip(chars)).rstrip(chars))

    def _strip_test(self, c, chars):
        if chars is None:
            return mkbool(_in_ranges(c, SPACE))
        return mkbool(_or([_ceq(c, x) for x in tosym(chars).cs]))

    def split(self, sep=None, maxsplit=-1):
        maxsplit = _idx(maxsplit)
        if sep is None:
            out = []
            i = 0
            n = len(self.cs)
            while True:
                while i < n and mkbool(_in_ranges(self.cs[i], SPACE)):
                    i += 1
                if i >= n:
                    break
                if maxsplit == 0:
                    out.append(_rs(tosym(mkstr(self.cs[i:])).rstrip()))
                    break
                j = i
                while j < n and not mkbool(_in_ranges(self.cs[j], SPACE)):
                    j += 1
                out.append(mkstr(self.cs[i:j]))
                i = j
                maxsplit -= 1
            return out
        sep = tosym(sep)
        if not sep.cs:
            raise ValueError("empty separator")
        out = []
        i = 0
        while maxsplit != 0:
            j = self.find(sep, i)
            if j == -1:
                break
            out.append(mkstr(self.cs[i:j]))
            i = j + len(sep.cs)
            maxsplit -= 1
        out.append(mkstr(self.cs[i:]))
        return out

    def rsplit(self, sep=None, maxsplit=-1):
        maxsplit = _idx(maxsplit)
        if sep is None:
            raise Unsupported("rsplit(None)")
        sep = tosym(sep)
        out = []
        j = len(self.cs)
        while maxsplit != 0:
            i = self.rfind(sep, 0, j)
            if i == -1:
                break
            out.append(mkstr(self.cs[i + len(sep.cs) : j]))
            j = i
            maxsplit -= 1
        out.append(mkstr(self.cs[:j]))
        out.reverse()
        return out

    def partition(self, sep):
        sep = tosym(sep)
        i = self.find(sep)
        if i == -1:
            return (_rs(self), "", "")
        return (mkstr(self.cs[:i]), _rs(sep), mkstr(self.cs[i + len(sep.cs) :]))

    def rpartition(self, sep):
        sep = tosym(sep)
        i = self.rfind(sep)
        if i == -1:
            return ("", "", _rs(self))
        return (mkstr(self.cs[:i]), _rs(sep), mkstr(self.cs[i + len(sep.cs) :]))

    def replace(self, old, new, count=-1):
        old = tosym(old)
        new = tosym(new)
        out = []
        i = 0
        if len(old.cs) == 0:
            raise Unsupported("replace of empty string")
        while count != 0:
            j = self.find(old, i)
            if j == -1:
                break
            out.extend(self.cs[i:j])
            out.extend(new.cs)
            i = j + len(old.cs)
            count -= 1
        out.extend(self.cs[i:])
        return mkstr(out)

    def splitlines(self, keepends=False, _breaks=None):
        out = []
        i = 0
        n = len(self.cs)
        j = 0
        while j < n:
            c = self.cs[j]
            if mkbool(_in_ranges(c, LINEBREAK if _breaks is None else _breaks)):
                eol = j + 1
                if mkbool(_ceq(c, 13)) and j + 1 < n and mkbool(_ceq(self.cs[j + 1], 10)):
                    eol = j + 2
                out.append(mkstr(self.cs[i:eol] if keepends else self.cs[i:j]))
                i = j = eol
                continue
            j += 1
        if i < n:
            out.append(mkstr(self.cs[i:]))
        return out

    def expandtabs(self, tabsize=8):
        out = []
        col = 0
        for c in self.cs:
            if mkbool(_ceq(c, 9)):
                k = tabsize - col % tabsize if tabsize > 0 else 0
                out.extend([32] * k)
                col += k
            elif mkbool(_or([_ceq(c, 10), _ceq(c, 13)])):
                out.append(c)
                col = 0
            else:
                out.append(c)
                col += 1
        return mkstr(out)

    def format(self, *args, **kw):
        if not self.concrete():
            raise Unsupported("format on symbolic template")
        out = SymStr(())
        auto = 0
        for lit, field, spec, conv in _string.Formatter().parse(str(self)):
            out = tosym(out + lit)
            if field is None:
                continue
            if spec or conv:
                raise Unsupported("format spec")
            if field == "":
                v = args[auto]
                auto += 1
            elif field.isdigit():
                v = args[int(field)]
            else:
                v = kw[field]
            out = tosym(out + (v if isinstance(v, SymStr) else format(v)))
        return _rs(out)

    def encode(self, encoding="utf-8", errors="strict"):
        return SymBytes.encode(self, encoding)

    def join(self, parts):
        out = []
        first = True
        for p in parts:
            if not first:
                out.extend(self.cs)
            out.extend(tosym(p).cs)
            first = False
        return mkstr(out)

    def title(self):
        raise Unsupported("title")

    def capitalize(self):
        if not self.cs:
            return ""
        return tosym(tosym(mkstr(self.cs[:1])).upper()) + tosym(mkstr(self.cs[1:])).lower()

    def zfill(self, n):
        raise Unsupported("zfill")

    def ljust(self, n, fill=" "):
        n = _idx(n)
        return mkstr(self.cs + (ord(fill),) * max(0, n - len(self.cs)))

    def rjust(self, n, fill=" "):
        n = _idx(n)
        return mkstr((ord(fill),) * max(0, n - len(self.cs)) + self.cs)

    def removeprefix(self, p):
        if self.startswith(p):
            return mkstr(self.cs[len(p) :])
        return _rs(self)

    def removesuffix(self, p):
        if len(p) and self.endswith(p):
            return mkstr(self.cs[: -len(p)])
        return _rs(self)


def _rs(s):
    """collapse to a plain str when fully concrete"""
    if isinstance(s, SymStr):
        return mkstr(s.cs)
    return s


class SymBytes:
    """bytes counterpart (only what fscommands needs): tuple of int | z3 Int byte values"""

    __slots__ = ("bs",)

    def __init__(self, bs):
        self.bs = tuple(bs)

    def __len__(self):
        return len(self.bs)

    @staticmethod
    def encode(s, encoding):
        enc = encoding.lower().replace("_", "-")
        out = []
        if enc in ("ascii", "us-ascii"):
            for c in s.cs:
                if mkbool(_in_ranges(c, [(128, 0x10FFFF)])):
                    raise UnicodeEncodeError("ascii", "?", 0, 1, "ordinal not in range(128)")
                out.append(c)
        elif enc in ("latin-1", "latin1", "iso-8859-1", "iso8859-1", "l1"):
            for c in s.cs:
                out.append(c)
        elif enc in ("utf-8", "utf8"):
            for c in s.cs:
                if isinstance(c, int):
                    out.extend(chr(c).encode("utf-8"))
                elif mkbool(c < 128):
                    out.append(c)
                else:
                    # all symbolic chars are < 256 < 0x800: two bytes
                    out.append(z3.simplify(192 + c / 64))
                    out.append(z3.simplify(128 + c % 64))
        else:
            raise Unsupported("encode %s" % encoding)
        return mkbytes(out)

    def decode(self, encoding="utf-8", errors="strict"):
        enc = encoding.lower().replace("_", "-")
        out = []
        if enc in ("latin-1", "latin1", "iso-8859-1", "iso8859-1", "l1"):
            out = list(self.bs)
        elif enc in ("ascii", "us-ascii"):
            for b in self.bs:
                if mkbool(_in_ranges(b, [(128, 255)])):
                    raise UnicodeDecodeError("ascii", b"?", 0, 1, "ordinal not in range(128)")
                out.append(b)
        elif enc in ("utf-8", "utf8"):
            i = 0
            n = len(self.bs)
            while i < n:
                b = self.bs[i]
                if mkbool(_in_ranges(b, [(0, 127)])):
                    out.append(b)
                    i += 1
                elif mkbool(_in_ranges(b, [(0xC2, 0xDF)])):
                    if i + 1 >= n or not mkbool(_in_ranges(self.bs[i + 1], [(0x80, 0xBF)])):
                        raise UnicodeDecodeError("utf-8", b"?", i, i + 1, "invalid continuation byte")
                    out.append(z3.simplify((_zc(b) - 192) * 64 + (_zc(self.bs[i + 1]) - 128)))
                    i += 2
                elif mkbool(_in_ranges(b, [(0xE0, 0xF4)])):
                    # a lead byte of a 3- or 4-byte sequence: CPython rejects it unless the next 2 / 3
                    # bytes are continuation bytes; only a well-formed long sequence is beyond the model
                    need = 2 if mkbool(_in_ranges(b, [(0xE0, 0xEF)])) else 3
                    for k in range(1, need + 1):
                        if i + k >= n or not mkbool(_in_ranges(self.bs[i + k], [(0x80, 0xBF)])):
                            raise UnicodeDecodeError("utf-8", b"?", i, i + k, "invalid continuation byte")
                    raise Unsupported("utf-8 sequences of 3+ bytes")
                else:
                    raise UnicodeDecodeError("utf-8", b"?", i, i + 1, "invalid start byte")
        else:
            raise Unsupported("decode %s" % encoding)
        return mkstr(out)

    def __eq__(self, o):
        if isinstance(o, bytes):
            o = SymBytes(tuple(o))
        if not isinstance(o, SymBytes):
            return False
        if len(o.bs) != len(self.bs):
            return False
        return mkbool(_and([_ceq(a, b) for a, b in zip(self.bs, o.bs)]))

    def __ne__(self, o):
        r = self.__eq__(o)
        return (not r) if isinstance(r, bool) else ~r

    def __hash__(self):
        raise Unsupported("hash of symbolic bytes")

    def __getitem__(self, i):
        if isinstance(i, slice):
            return mkbytes(self.bs[slice(_idx(i.start) if i.start is not None else None, _idx(i.stop) if i.stop is not None else None)])
        b = self.bs[_idx(i)]
        return b if isinstance(b, int) else SymInt(b)

    def __add__(self, o):
        if isinstance(o, bytes):
            o = SymBytes(tuple(o))
        return mkbytes(self.bs + o.bs)

    def __radd__(self, o):
        return mkbytes(tuple(o) + self.bs)

    # --- text-like operations, delegated to the latin-1 view
    def _v(self):
        return SymStr(self.bs)

    @staticmethod
    def _arg(x):
        if isinstance(x, SymBytes):
            return SymStr(x.bs)
        if isinstance(x, (bytes, bytearray)):
            return SymStr(tuple(x))
        if isinstance(x, int):
            return SymStr((x,))
        if isinstance(x, SymInt):
            return SymStr((x.e,))
        raise Unsupported("bytes argument %r" % type(x))

    @staticmethod
    def _out(x):
        if isinstance(x, str):
            return x.encode("latin-1")
        if isinstance(x, SymStr):
            return mkbytes(x.cs)
        if isinstance(x, list):
            return [SymBytes._out(y) for y in x]
        if isinstance(x, tuple):
            return tuple(SymBytes._out(y) for y in x)
        return x

    def split(self, sep=None, maxsplit=-1):
        if sep is None:
            raise Unsupported("bytes.split(None)")
        return self._out(self._v().split(self._arg(sep), maxsplit))

    def splitlines(self, keepends=False):
        # bytes.splitlines breaks at LF, CR and CRLF only (str.splitlines also at FF, VT, FS..RS, NEL, LS, PS)
        return self._out(self._v().splitlines(keepends, _breaks=BYTES_LINEBREAK))

    def find(self, sub, start=None, end=None):
        return self._v().find(self._arg(sub), start, end)

    def index(self, sub, start=None, end=None):
        return self._v().index(self._arg(sub), start, end)

    def rfind(self, sub, start=None, end=None):
        return self._v().rfind(self._arg(sub), start, end)

    def startswith(self, p, *a):
        return self._v().startswith(self._arg(p), *a)

    def endswith(self, p, *a):
        return self._v().endswith(self._arg(p), *a)

    def replace(self, old, new, count=-1):
        return self._out(self._v().replace(self._arg(old), self._arg(new), count))

    def __contains__(self, x):
        return self._v().find(self._arg(x)) != -1

    def __iter__(self):
        for b in self.bs:
            yield b if isinstance(b, int) else SymInt(b)

    def __bool__(self):
        return len(self.bs) > 0

    def as_str(self):
        """view the byte string as a latin-1 SymStr (for running text algorithms on bytes)"""
        return mkstr(self.bs)

    def __repr__(self):
        return "SymBytes(%s)" % "".join(chr(c) if isinstance(c, int) and 32 <= c < 127 else "?" for c in self.bs)


def mkbytes(bs):
    bs = tuple(bs)
    if all(isinstance(c, int) for c in bs):
        return bytes(bs)
    return SymBytes(bs)


def mkstr(cs):
    cs = tuple(cs)
    if all(isinstance(c, int) for c in cs):
        return "".join(map(chr, cs))
    return SymStr(cs)


def sym_str(name, length, ranges=((0, 127),), exclude=()):
    """a symbolic string of the given concrete length; every char constrained to `ranges`;
    never equal to any same-length string in `exclude`"""
    E = core.ENGINE
    cs = []
    for k in range(length):
        v = E.fresh_int("%s@%d" % (name, k))
        E.assume(mkbool(_in_ranges(v, list(ranges))))
        cs.append(v)
    s = SymStr(cs) if cs else ""
    for x in exclude:
        if len(x) == length and length:
            E.assume(s != x)
    E.inputs[name] = s
    return s


def sym_bytes(name, length, ranges=((0, 255),)):
    E = core.ENGINE
    bs = []
    for k in range(length):
        v = E.fresh_int("%s@%d" % (name, k))
        E.assume(mkbool(_in_ranges(v, list(ranges))))
        bs.append(v)
    b = mkbytes(bs)
    E.inputs[name] = b
    return b


def concretize(x, model):
    """model-instantiate nested structures of proxies into plain python values"""

    def ev(c):
        return model.eval(c, model_completion=True).as_long()

    if isinstance(x, SymStr):
        return "".join(chr(c if isinstance(c, int) else ev(c)) for c in x.cs)
    if isinstance(x, SymBytes):
        return bytes(c if isinstance(c, int) else ev(c) for c in x.bs)
    if isinstance(x, SymInt):
        return ev(x.e)
    if isinstance(x, SymBool):
        return z3.is_true(model.eval(x.e, model_completion=True))
    if isinstance(x, (list, tuple)):
        return type(x)(concretize(y, model) for y in x)
    if isinstance(x, dict):
        return {concretize(k, model): concretize(v, model) for k, v in x.items()}
    if isinstance(x, (set, frozenset)):
        return type(x)(concretize(y, model) for y in x)
    return x


def sym_eq(a, b):
    """structural equality of possibly-symbolic values as a SymBool/bool *without forking*"""
    if isinstance(a, (str, SymStr)) and isinstance(b, (str, SymStr)):
        r = tosym(a)._eqc(b)
        return mkbool(r) if not isinstance(r, bool) else r
    if isinstance(a, (bytes, SymBytes)) and isinstance(b, (bytes, SymBytes)):
        a = a if isinstance(a, SymBytes) else SymBytes(tuple(a))
        return a == b
    if isinstance(a, bool) or isinstance(b, bool) or isinstance(a, SymBool) or isinstance(b, SymBool):
        if isinstance(a, (bool, SymBool)) and isinstance(b, (bool, SymBool)):
            return mkbool(core.zb(a) == core.zb(b))
        return False
    if isinstance(a, (int, SymInt)) and isinstance(b, (int, SymInt)):
        return mkbool(zi(a) == zi(b))
    if isinstance(a, (list, tuple)) and type(a) is type(b):
        if len(a) != len(b):
            return False
        r = True
        for x, y in zip(a, b):
            e = sym_eq(x, y)
            if e is False:
                return False
            r = e if r is True else (r if e is True else r & e)
        return r
    if type(a) is not type(b):
        return False
    return a == b
