"""Pattern B support: a real rope Project on a temp dir whose files hold placeholder text while
File.read()/read_bytes() return the symbolic text (DESIGN.md §3.2)."""
import os
import re
import shutil
import tempfile
import atexit
from .symstr import SymStr, tosym, mkstr
from .parse import placeholder_text

_TABLE = {}  # real_path -> symbolic text
_patched = False
_TMPDIRS = []


def _patch():
    global _patched
    if _patched:
        return
    _patched = True
    from rope.base import resources

    _read = resources.File.read
    _read_bytes = resources.File.read_bytes

    def read(self):
        t = _TABLE.get(self.real_path)
        if t is not None:
            self.newlines = "\n"
            return t
        return _read(self)

    def read_bytes(self):
        t = _TABLE.get(self.real_path)
        if t is not None:
            return tosym(t).encode("utf-8") if isinstance(t, SymStr) else t.encode("utf-8")
        return _read_bytes(self)

    resources.File.read = read
    resources.File.read_bytes = read_bytes


def build(template, names):
    """instantiate a skeleton: `{k}` -> names[k] (str or SymStr)"""
    out = SymStr(())
    pos = 0
    for m in re.finditer(r"\{(\d+)\}", template):
        out = tosym(out + template[pos:m.start()])
        out = tosym(out + names[int(m.group(1))])
        pos = m.end()
    return mkstr(tosym(out + template[pos:]).cs)


def slot_offsets(template, names):
    """[(slot index, offset of the occurrence in the instantiated text)] in text order"""
    out = []
    off = 0
    pos = 0
    for m in re.finditer(r"\{(\d+)\}", template):
        off += m.start() - pos
        k = int(m.group(1))
        out.append((k, off))
        off += len(names[k])
        pos = m.end()
    return out


class SymProject:
    def __init__(self, **prefs):
        _patch()
        from rope.base import project as rproject

        self.tmp = tempfile.mkdtemp(prefix="rsxB")
        prefs.setdefault("automatic_soa", False)
        self.proj = rproject.Project(self.tmp, ropefolder=None, **prefs)
        self.files = {}

    def add(self, path, text):
        full = os.path.join(self.tmp, path)
        os.makedirs(os.path.dirname(full), exist_ok=True)
        with open(full, "w") as fh:
            fh.write(placeholder_text(text)[0] if isinstance(text, SymStr) else text)
        _TABLE[full] = text
        self.files[path] = text
        return self.proj.get_file(path)

    def add_folder(self, path):
        os.makedirs(os.path.join(self.tmp, path), exist_ok=True)
        return self.proj.get_folder(path)

    def close(self):
        for p in list(_TABLE):
            if p.startswith(self.tmp + os.sep):
                del _TABLE[p]
        try:
            self.proj.close()
        except Exception:
            pass
        shutil.rmtree(self.tmp, ignore_errors=True)

    def __enter__(self):
        return self

    def __exit__(self, *a):
        self.close()
        return False


def apply_changes(files, changes):
    """interpret a rope Change tree on a {path: text} dict (texts may be symbolic); returns the
    new dict.  Folders are implicit."""
    from rope.base import change as ch

    files = dict(files)

    def go(c):
        if isinstance(c, ch.ChangeSet):
            for x in c.changes:
                go(x)
        elif isinstance(c, ch.ChangeContents):
            if c.new_contents is None:
                # what Project.do does with it (fscommands.unicode_to_file_data asserts a str)
                raise AssertionError("ChangeContents(%s) carries no contents" % c.resource.path)
            files[c.resource.path] = c.new_contents
        elif isinstance(c, ch.MoveResource):
            a, b = c.resource.path, c.new_resource.path
            if a in files:
                files[b] = files.pop(a)
            else:
                for p in [p for p in files if p.startswith(a + "/")]:
                    files[b + p[len(a):]] = files.pop(p)
        elif isinstance(c, ch.CreateResource):
            if not c.resource.is_folder():
                files.setdefault(c.resource.path, "")
        elif isinstance(c, ch.RemoveResource):
            files.pop(c.resource.path, None)
            for p in [p for p in files if p.startswith(c.resource.path + "/")]:
                files.pop(p)

    if changes is not None:
        go(changes)
    return files
