"""Runtime entry points the rewritten rope code calls.  With concrete arguments each is a
fast-path call of the original operation."""
import builtins
from .core import SymInt, SymBool, Unsupported
from .symstr import SymStr, SymBytes, tosym, mkstr

_isinstance = builtins.isinstance
_PROXY = (SymStr, SymInt, SymBytes)


def _has_sym(x):
    t = type(x)
    if t is SymStr or t is SymInt or t is SymBytes:
        return True
    if t is tuple or t is list:
        for y in x:
            if _has_sym(y):
                return True
    return False


def sx_in(a, b):
    tb = type(b)
    if tb is str:
        if type(a) is SymStr:
            return tosym(b).__contains__(a)
        return a in b
    if tb is SymStr or tb is SymBytes:
        return b.__contains__(a)
    if tb is bytes and (type(a) is SymInt or type(a) is SymBytes):
        return SymBytes(tuple(b)).__contains__(a)
    return a in b


def sx_mod(a, b):
    if type(a) is SymStr:
        if not a.concrete():
            raise Unsupported("% on symbolic template")
        a = str(a)
    if type(a) is str and _has_sym(b):
        args = b if _isinstance(b, tuple) else (b,)
        out = SymStr(())
        i = 0
        k = 0
        n = len(a)
        while i < n:
            if a[i] == "%":
                if a[i + 1] == "%":
                    out = tosym(out + "%")
                    i += 2
                    continue
                if a[i + 1] not in "sd":
                    raise Unsupported("format %" + a[i + 1])
                v = args[k]
                k += 1
                if type(v) is SymInt:
                    raise Unsupported("%d of symbolic int")
                out = tosym(out + (v if type(v) is SymStr else builtins.str(v)))
                i += 2
            else:
                out = tosym(out + a[i])
                i += 1
        return mkstr(out.cs)
    return a % b


def sx_fstr(*parts):
    for p in parts:
        if type(p) is SymStr:
            out = SymStr(())
            for q in parts:
                out = tosym(out + (q if type(q) is SymStr else format(q)))
            return mkstr(out.cs)
    return "".join([format(p) for p in parts])


def sx_callm(obj, name, /, *args, **kw):
    if type(obj) is str:
        if _has_sym(args) or (kw and _has_sym(list(kw.values()))):
            return getattr(tosym(obj), name)(*args, **kw)
        if name == "join" and args and not _isinstance(args[0], (str, list, tuple)):
            parts = list(args[0])
            if _has_sym(parts):
                return tosym(obj).join(parts)
            return obj.join(parts)
    return getattr(obj, name)(*args, **kw)


def sx_str(x):
    if type(x) is SymStr:
        return x
    return str(x)


def sx_repr(x):
    if type(x) is SymStr:
        raise Unsupported("repr of symbolic string")
    return repr(x)


def sx_int(x):
    if type(x) is SymInt:
        return x
    if type(x) is SymStr:
        return _int_of_symstr(x)
    return int(x)


def _int_of_symstr(s):
    """int(str) for a symbolic string: the character classes are forked, validity is decided by
    the interpreter on a class-representative, the value is a z3 polynomial of the digit chars"""
    import z3
    from .core import mkbool, mkint
    from . import symstr as SS

    rep = []
    digits = []
    for c in s.cs:
        if mkbool(SS._in_ranges(c, [(48, 57)])):
            rep.append("1")
            digits.append(c)
        elif mkbool(SS._in_ranges(c, SS.SPACE)):
            rep.append(" ")
        elif mkbool(SS._ceq(c, 43)):
            rep.append("+")
        elif mkbool(SS._ceq(c, 45)):
            rep.append("-")
        elif mkbool(SS._ceq(c, 95)):
            rep.append("_")
        elif mkbool(SS._in_ranges(c, SS.DECIMAL)):
            raise Unsupported("non-ASCII decimal digit in int()")
        else:
            rep.append("x")
    r = "".join(rep)
    int(r)  # raises ValueError exactly when int() of any member of the class does
    val = z3.IntVal(0)
    for d in digits:
        val = val * 10 + ((d if not isinstance(d, int) else z3.IntVal(d)) - 48)
    if "-" in r:
        val = -val
    return mkint(val)


def sx_ord(x):
    if type(x) is SymStr:
        c = x.cs[0]
        return c if _isinstance(c, int) else SymInt(c)
    return ord(x)


def sx_isinstance(x, t):
    tx = type(x)
    if tx is SymStr:
        ts = t if _isinstance(t, tuple) else (t,)
        return str in ts or _isinstance(x, t)
    if tx is SymInt:
        ts = t if _isinstance(t, tuple) else (t,)
        return int in ts or _isinstance(x, t)
    if tx is SymBytes:
        ts = t if _isinstance(t, tuple) else (t,)
        return bytes in ts or _isinstance(x, t)
    if tx is SymBool:
        ts = t if _isinstance(t, tuple) else (t,)
        return bool in ts or int in ts or _isinstance(x, t)
    return _isinstance(x, t)


_type = builtins.type
_chr = builtins.chr


def sx_type(x, *rest):
    """shadow for the 1-argument form of type() in modules that dispatch on `type(x) == bytes`"""
    if rest:
        return _type(x, *rest)
    tx = _type(x)
    if tx is SymStr:
        return str
    if tx is SymBytes:
        return bytes
    if tx is SymInt:
        return int
    return tx


def sx_chr(x):
    if _type(x) is SymInt:
        return SymStr((x.e,))
    return _chr(x)
