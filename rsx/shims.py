"""Module-global shadowing inside the instrumented rope modules (DESIGN.md §2.3)."""
import sys
import re
import importlib
import pkgutil
from . import symre, rt, parse

SKIP_IMPORT = ("rope.contrib.autoimport",)  # sqlite-backed; outside every claim


def import_all_rope():
    import rope

    for m in pkgutil.walk_packages(rope.__path__, "rope."):
        if m.name.startswith(SKIP_IMPORT):
            continue
        try:
            importlib.import_module(m.name)
        except Exception:  # optional deps
            pass


def install(all_modules=True):
    import rope  # noqa: F401
    import ast as _pyast
    import tokenize as _tok

    if all_modules:
        import_all_rope()
    import rope.base.ast as rast

    if parse._ORIG_ROPE_PARSE is None:
        parse._ORIG_ROPE_PARSE = rast.parse
    rast.parse = parse.rope_ast_parse
    import rope.base.fscommands as fsc

    fsc.type = rt.sx_type  # `type(source) == bytes` dispatch in read_str_coding
    fsc.chr = rt.sx_chr
    for m in list(sys.modules.values()):
        name = getattr(m, "__name__", "") if m is not None else ""
        if not (name == "rope" or name.startswith("rope.")):
            continue
        m.isinstance = rt.sx_isinstance
        if getattr(m, "re", None) is re:
            m.re = symre
        if getattr(m, "ast", None) is _pyast:
            m.ast = parse.AstShim()
        if getattr(m, "tokenize", None) is _tok:
            m.tokenize = parse.TokenizeShim()
        holders = [m] + [
            v for v in vars(m).values() if isinstance(v, type) and getattr(v, "__module__", None) == name
        ]
        for holder in holders:
            for k, v in list(vars(holder).items()):
                if isinstance(v, re.Pattern):
                    setattr(holder, k, symre.Pattern(v.pattern, v.flags & ~re.U))
                elif isinstance(v, (tuple, list)) and v and all(isinstance(x, re.Pattern) for x in v):
                    setattr(holder, k, type(v)(symre.Pattern(x.pattern, x.flags & ~re.U) for x in v))


def boot(repo=None):
    """one call: loader + all rope modules + shims.  Returns nothing; idempotent."""
    import os
    from . import loader

    repo = repo or os.environ.get("ROPE_REPO", "/repo")

    if repo not in sys.path:
        sys.path.insert(0, repo)
    loader.install()
    install()
    _reset_rope_process_state_per_path()


_RESET_INSTALLED = []


def _reset_rope_process_state_per_path():
    """rope keeps one piece of process-wide state that enters generated text: the counter behind
    inline._DefinitionGenerator.unique_prefix ('__0__', '__1__', ...).  A path that is re-executed
    must see the same value as its first execution, so the counter is re-armed at every path start:
    every path models the first conflicting inline of a session (the prefix is then '__0__')."""
    if _RESET_INSTALLED:
        return
    _RESET_INSTALLED.append(True)
    from . import core

    def rearm():
        mod = sys.modules.get("rope.refactor.inline")
        if mod is not None:
            mod._DefinitionGenerator.unique_prefix = mod.unique_prefix()

    core.PATH_START_HOOKS.append(rearm)
