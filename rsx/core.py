"""rsx core: re-execution DFS symbolic executor over z3-backed proxy values.

The code under test (rope, loaded from /repo's working tree) runs natively on SymBool/SymInt/SymStr
proxies.  Every branch on a symbolic condition calls Engine.decide(), which asks z3 whether the
other side is feasible as well; explore() re-executes the harness once per feasible path (depth
first, flipping the last pending decision) until no pending alternative is left.  See DESIGN.md §2.
"""
import time
import z3


class Unsupported(BaseException):
    """An operation reached the engine that it cannot model: the path (and run) is inconclusive.
    BaseException so that rope's `except Exception` handlers cannot swallow it."""

    def __init__(self, msg=""):
        super().__init__(msg)
        if ENGINE is not None:
            ENGINE.sticky = ("Unsupported", str(msg))


class PathAbort(BaseException):
    """The current path violates an assumption (precondition): drop it silently (counted)."""

    def __init__(self, msg=""):
        super().__init__(msg)
        if ENGINE is not None and ENGINE.sticky is None:
            ENGINE.sticky = ("PathAbort", str(msg))


class Inconclusive(Exception):
    pass


PATH_START_HOOKS = []  # callables run at the start of every path (per-path caches are reset here)


class Engine:
    def __init__(self, timeout_ms=20000, max_decisions=400000):
        self.solver = z3.Solver()
        self.solver.set("timeout", timeout_ms)
        self.prefix = []  # list of [choice(bool), has_alt(bool)]
        self.pos = 0
        self.model = None
        self.nvars = 0
        self.sticky = None
        self.known = {}
        self.realized = {}
        self._keep = []
        self.hashed = []
        self.max_decisions = max_decisions
        self.inputs = {}  # name -> proxy, registered by sym_* for witness extraction
        self.stats = dict(paths=0, vacuous=0, checks=0, decisions=0, solver_s=0.0, unsupported=0)
        self.unsupported_sites = {}

    # ---- solver plumbing
    def _check(self):
        t = time.perf_counter()
        r = self.solver.check()
        self.stats["solver_s"] += time.perf_counter() - t
        self.stats["checks"] += 1
        return r

    def fresh_int(self, name=None):
        self.nvars += 1
        return z3.Int("%s#%d" % (name or "i", self.nvars))

    def fresh_bool(self, name=None):
        self.nvars += 1
        return z3.Bool("%s#%d" % (name or "b", self.nvars))

    def assume(self, cond):
        """add a precondition; abort the path if infeasible"""
        c = unwrap_bool(cond)
        if c is True:
            return
        if c is False:
            raise PathAbort("assume False")
        self.solver.add(c)
        if self.pos < len(self.prefix):
            self.model = None
            return  # replaying a known-feasible prefix
        if self.model is not None and z3.is_true(self.model.eval(c, model_completion=True)):
            return
        r = self._check()
        if r == z3.unknown:
            raise Unsupported("solver unknown in assume")
        if r != z3.sat:
            raise PathAbort("assume infeasible")
        self.model = self.solver.model()

    def _ensure_model(self):
        if self.model is None:
            r = self._check()
            if r == z3.unknown:
                raise Unsupported("solver unknown")
            if r != z3.sat:
                raise PathAbort("infeasible")
            self.model = self.solver.model()

    def fresh_model(self):
        self.model = None
        self._ensure_model()
        return self.model

    def decide(self, expr, simplified=False, payload=None):
        if not simplified:
            expr = z3.simplify(expr)
        if z3.is_true(expr):
            return True
        if z3.is_false(expr):
            return False
        self.stats["decisions"] += 1
        key = expr.get_id()
        if key in self.known:
            return self.known[key]
        if len(self.known) > self.max_decisions:
            raise Unsupported("decision budget exceeded")
        choice = self._decide(expr, payload)
        self.known[key] = choice
        self._keep.append(expr)
        return choice

    def _decide(self, expr, payload=None):
        if self.pos < len(self.prefix):
            choice = self.prefix[self.pos][0]
            self.pos += 1
            self.solver.add(expr if choice else z3.Not(expr))
            self.model = None
            return choice
        self._ensure_model()
        mv = z3.is_true(self.model.eval(expr, model_completion=True))
        other = z3.Not(expr) if mv else expr
        self.solver.push()
        self.solver.add(other)
        r = self._check()
        if r == z3.unknown:
            self.solver.pop()
            raise Unsupported("solver unknown")
        other_model = self.solver.model() if r == z3.sat else None
        self.solver.pop()
        if r == z3.sat:
            choice = True
            self.prefix.append([True, True, payload])
            if not mv:
                self.model = other_model
        else:
            choice = mv
            self.prefix.append([mv, False, payload])
        self.pos += 1
        self.solver.add(expr if choice else z3.Not(expr))
        return choice

    def realize_int(self, expr):
        """fork over all feasible values of an int expr; returns a concrete int.  The candidate
        value comes from the current model the first time a decision is made and is *recorded in
        the decision prefix*; a re-execution that replays the prefix uses the recorded value, so
        it asks exactly the same questions whatever model the solver happens to produce."""
        expr = z3.simplify(expr)
        if z3.is_int_value(expr):
            return expr.as_long()
        rid = expr.get_id()
        if rid in self.realized:
            return self.realized[rid]
        n = 0
        while True:
            if self.pos < len(self.prefix) and self.prefix[self.pos][2] is not None:
                v = self.prefix[self.pos][2]
            else:
                self._ensure_model()
                v = self.model.eval(expr, model_completion=True).as_long()
            if self.decide(expr == v, payload=v):
                self.realized[rid] = v
                self._keep.append(expr)
                return v
            n += 1
            if n > 4096:
                raise Unsupported("realize_int: unbounded integer")

    def can_be(self, cond):
        """Is `cond` satisfiable together with the current path condition?  Returns a model or
        None.  Does not extend the path."""
        c = unwrap_bool(cond)
        if c is False:
            return None
        self.solver.push()
        try:
            if c is not True:
                self.solver.add(c)
            r = self._check()
            if r == z3.unknown:
                raise Unsupported("solver unknown in can_be")
            return self.solver.model() if r == z3.sat else None
        finally:
            self.solver.pop()

    def check_hash_discipline(self, consts_by_len):
        """§2.5: no symbolic string that was hashed on this path may equal a concrete constant of
        the same length.  Returns a description of the offender or None."""
        seen = set()
        for s in self.hashed:
            key = tuple(c if isinstance(c, int) else c.get_id() for c in s.cs)
            if key in seen:
                continue
            seen.add(key)
            cands = consts_by_len.get(len(s.cs), ())
            disj = []
            for k in cands:
                conj = []
                ok = True
                for a, b in zip(s.cs, k):
                    if isinstance(a, int):
                        if a != ord(b):
                            ok = False
                            break
                    else:
                        conj.append(a == ord(b))
                if ok and conj:
                    disj.append(z3.And(*conj) if len(conj) > 1 else conj[0])
            if disj and self.can_be(z3.Or(*disj) if len(disj) > 1 else disj[0]) is not None:
                return repr(s)
        return None

    def explore(self, fn, deadline=None, max_paths=None):
        """Run fn() over all feasible paths.  Returns (results, exhaustive)."""
        results = []
        while True:
            self.solver.push()
            self.pos = 0
            self.model = None
            self.nvars = 0
            self.known = {}
            self.realized = {}
            self._keep = []
            self.hashed = []
            self.sticky = None
            self.inputs = {}
            for hook in PATH_START_HOOKS:
                hook()
            try:
                r = fn()
                if self.sticky is not None:
                    # a control exception was swallowed by an `except Exception`/`finally` in the
                    # code under test: treat as what it was
                    if self.sticky[0] == "PathAbort":
                        self.stats["vacuous"] += 1
                    else:
                        self._unsupported(self.sticky[1])
                else:
                    results.append(r)
            except PathAbort:
                self.stats["vacuous"] += 1
            except Unsupported as e:
                self._unsupported(str(e), e)
            finally:
                self.solver.pop()
            self.stats["paths"] += 1
            if self.pos < len(self.prefix):
                raise Inconclusive("replay divergence: pos %d < prefix %d" % (self.pos, len(self.prefix)))
            while self.prefix and not self.prefix[-1][1]:
                self.prefix.pop()
            if not self.prefix:
                return results, True
            self.prefix[-1] = [not self.prefix[-1][0], False, self.prefix[-1][2]]
            if (max_paths and self.stats["paths"] >= max_paths) or (deadline and time.time() > deadline):
                return results, False

    def _unsupported(self, msg, exc=None):
        self.stats["unsupported"] += 1
        site = msg
        if exc is not None and exc.__traceback__ is not None:
            import traceback

            frames = traceback.extract_tb(exc.__traceback__)
            rel = [f for f in frames if "/rope/" in f.filename]
            if rel:
                f = rel[-1]
                site = "%s @ %s:%d %s" % (msg, f.filename.split("/rope/", 1)[-1], f.lineno, f.line)
            elif frames:
                f = frames[-1]
                site = "%s @ %s:%d" % (msg, f.filename, f.lineno)
        self.unsupported_sites[site] = self.unsupported_sites.get(site, 0) + 1

    def model_value(self, expr):
        self._ensure_model()
        return self.model.eval(expr, model_completion=True)


ENGINE = None


def set_engine(e):
    global ENGINE
    ENGINE = e
    return e


def eng():
    return ENGINE


def unwrap_bool(x):
    if isinstance(x, SymBool):
        return x.e
    if isinstance(x, z3.BoolRef):
        if z3.is_true(x):
            return True
        if z3.is_false(x):
            return False
        return x
    return bool(x)


class SymBool:
    __slots__ = ("e",)

    def __init__(self, e):
        self.e = e

    def __bool__(self):
        return ENGINE.decide(self.e, True)

    def __invert__(self):
        return mkbool(z3.Not(self.e))

    def __and__(self, o):
        o = unwrap_bool(o)
        if o is True:
            return self
        if o is False:
            return False
        return mkbool(z3.And(self.e, o))

    __rand__ = __and__

    def __or__(self, o):
        o = unwrap_bool(o)
        if o is True:
            return True
        if o is False:
            return self
        return mkbool(z3.Or(self.e, o))

    __ror__ = __or__

    def __eq__(self, o):
        return bool(self) == bool(o)

    def __ne__(self, o):
        return bool(self) != bool(o)

    def __hash__(self):
        return hash(bool(self))

    def __repr__(self):
        return "SymBool(%s)" % self.e


_MKBOOL_CACHE = {}


def mkbool(e):
    """simplify a z3 Bool term into True/False/SymBool (memoised by term id; terms are kept
    alive by the cache so ids are never recycled)"""
    if isinstance(e, bool):
        return e
    k = e.get_id()
    r = _MKBOOL_CACHE.get(k)
    if r is not None:
        return r[1]
    s = z3.simplify(e)
    if z3.is_true(s):
        v = True
    elif z3.is_false(s):
        v = False
    else:
        v = SymBool(s)
    if len(_MKBOOL_CACHE) > 2000000:
        _MKBOOL_CACHE.clear()
    _MKBOOL_CACHE[k] = (e, v)
    return v


def zb(x):
    if isinstance(x, SymBool):
        return x.e
    if isinstance(x, bool):
        return z3.BoolVal(x)
    return x


_INTVALS = {}


def intval(x):
    v = _INTVALS.get(x)
    if v is None:
        v = z3.IntVal(x)
        if -2 <= x <= 1200:
            _INTVALS[x] = v
    return v


def zi(x):
    if isinstance(x, SymInt):
        return x.e
    if isinstance(x, bool):
        return z3.IntVal(int(x))
    if isinstance(x, int):
        return intval(x)
    raise Unsupported("zi %r" % type(x))


def mkint(e):
    e = z3.simplify(e)
    if z3.is_int_value(e):
        return e.as_long()
    return SymInt(e)


class SymInt:
    __slots__ = ("e",)

    def __init__(self, e):
        self.e = e

    def _bin(self, o, f):
        if isinstance(o, (int, SymInt)):
            return mkint(f(self.e, zi(o)))
        return NotImplemented

    def __add__(self, o):
        return self._bin(o, lambda a, b: a + b)

    def __radd__(self, o):
        return self._bin(o, lambda a, b: b + a)

    def __sub__(self, o):
        return self._bin(o, lambda a, b: a - b)

    def __rsub__(self, o):
        return self._bin(o, lambda a, b: b - a)

    def __mul__(self, o):
        if isinstance(o, int) and not isinstance(o, bool):
            return mkint(self.e * o)
        if isinstance(o, SymInt):
            return mkint(self.e * o.e)
        if isinstance(o, (str, list, tuple)):
            return o * self.__index__()
        return NotImplemented

    __rmul__ = __mul__

    def __neg__(self):
        return mkint(-self.e)

    def __pos__(self):
        return self

    def __abs__(self):
        return mkint(z3.If(self.e >= 0, self.e, -self.e))

    def __floordiv__(self, o):
        if isinstance(o, int) and o > 0:
            return mkint(self.e / o)  # z3 int div floors for a positive divisor
        raise Unsupported("floordiv by non-constant")

    def __mod__(self, o):
        if isinstance(o, int) and o > 0:
            return mkint(self.e % o)
        raise Unsupported("mod by non-constant")

    def _cmp(self, o, f):
        if isinstance(o, (int, SymInt)):
            return mkbool(f(self.e, zi(o)))
        return NotImplemented

    def __lt__(self, o):
        return self._cmp(o, lambda a, b: a < b)

    def __le__(self, o):
        return self._cmp(o, lambda a, b: a <= b)

    def __gt__(self, o):
        return self._cmp(o, lambda a, b: a > b)

    def __ge__(self, o):
        return self._cmp(o, lambda a, b: a >= b)

    def __eq__(self, o):
        if isinstance(o, (int, SymInt)):
            return mkbool(self.e == zi(o))
        return False

    def __ne__(self, o):
        if isinstance(o, (int, SymInt)):
            return mkbool(self.e != zi(o))
        return True

    def __bool__(self):
        return ENGINE.decide(self.e != 0)

    def __index__(self):
        return ENGINE.realize_int(self.e)

    __int__ = __index__

    def __hash__(self):
        return 1  # sound only if never stored next to a concrete int it could equal (§2.5)

    def __repr__(self):
        return "SymInt(%s)" % self.e

    def __str__(self):
        raise Unsupported("str() of symbolic int")

    def __format__(self, spec):
        raise Unsupported("format() of symbolic int")


def sym_int(name, lo=None, hi=None):
    v = SymInt(ENGINE.fresh_int(name))
    if lo is not None:
        ENGINE.assume(v >= lo)
    if hi is not None:
        ENGINE.assume(v <= hi)
    ENGINE.inputs[name] = v
    return v


def sym_bool(name):
    v = SymBool(ENGINE.fresh_bool(name))
    ENGINE.inputs[name] = v
    return v


def choose(name, n):
    """a concrete int in range(n), forked by the solver"""
    if n <= 1:
        return 0
    return sym_int(name, 0, n - 1).__index__()


def assume(c):
    ENGINE.assume(c)
