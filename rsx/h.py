"""Harness-side helpers: exploring one instance, producing witnesses and failures."""
import time
import sys
import z3
from . import core
from .core import Engine, Unsupported, PathAbort, SymBool, SymInt, unwrap_bool
from .symstr import SymStr, SymBytes, concretize


class Fail(dict):
    """a property failure found on one path: kind, detail, witness (JSON-able concrete inputs)"""


def witness(model=None, **extra):
    """concrete values of every registered symbolic input under `model` (default: a model of the
    current path condition), plus extras (concretised)"""
    E = core.ENGINE
    if model is None:
        model = E.fresh_model()
    w = {k: _j(concretize(v, model)) for k, v in E.inputs.items()}
    for k, v in extra.items():
        c = concretize(v, model)
        w[k] = _j(c)
        if k == "value":
            w["value_repr"] = repr(c)
    return w


def _j(v):
    if isinstance(v, bytes):
        return {"__bytes__": v.decode("latin-1")}
    if isinstance(v, tuple):
        return [_j(x) for x in v]
    if isinstance(v, list):
        return [_j(x) for x in v]
    if isinstance(v, dict):
        return {str(k): _j(x) for k, x in v.items()}
    if isinstance(v, (set, frozenset)):
        return sorted(_j(x) for x in v)
    if isinstance(v, (str, int, float, bool)) or v is None:
        return v
    return repr(v)


def unj(v):
    if isinstance(v, dict) and "__bytes__" in v:
        return v["__bytes__"].encode("latin-1")
    if isinstance(v, list):
        return [unj(x) for x in v]
    if isinstance(v, dict):
        return {k: unj(x) for k, x in v.items()}
    return v


def fail(kind, detail, model=None, **extra):
    return Fail(kind=kind, detail=str(detail)[:400], witness=witness(model, **extra))


def require(cond, kind, detail="", **extra):
    """Solver-decided postcondition: is `not cond` satisfiable under the path condition?  Returns
    a Fail (with a violating witness) or None.  Does not fork."""
    c = unwrap_bool(cond)
    if c is True:
        return None
    E = core.ENGINE
    m = E.can_be(True if c is False else z3.Not(c))
    if m is None:
        return None
    return fail(kind, detail, model=m, **extra)


def explore_instance(run, seconds=600, trace_functions=True, max_fail=40):
    """explore all paths of `run` (returns None, a Fail, or a list of Fails per path)."""
    E = core.set_engine(Engine())
    _SAMPLES_LEFT[0] = 3
    t0 = time.time()
    entered = set()
    state = {"first": True}

    def wrapped():
        if state["first"] and trace_functions:
            state["first"] = False

            def prof(frame, event, arg):
                if event == "call":
                    fn = frame.f_code.co_filename
                    if "/rope/" in fn:
                        entered.add("%s:%s" % (fn.split("/rope/", 1)[1], frame.f_code.co_qualname))

            sys.setprofile(prof)
            try:
                return run()
            finally:
                sys.setprofile(None)
        return run()

    results, exhaustive = E.explore(wrapped, deadline=t0 + seconds)
    fails = []
    samples = []
    ok = 0
    nfail = 0
    refused = 0
    per_hint = {}

    def keep(r):
        k = (r.get("kind"), r.get("sig_hint", ""))
        per_hint[k] = per_hint.get(k, 0) + 1
        return per_hint[k] <= 3 and len(fails) < 400

    for r in results:
        if r is None:
            ok += 1
        elif isinstance(r, Fail):
            nfail += 1
            if keep(r):
                fails.append(dict(r))
        elif isinstance(r, list):
            fs = [x for x in r if isinstance(x, Fail)]
            if fs:
                nfail += 1
                for x in fs:
                    if keep(x):
                        fails.append(dict(x))
            else:
                ok += 1
        elif isinstance(r, dict) and r.get("refused"):
            ok += 1
            refused += 1
        elif isinstance(r, dict) and "sample" in r:
            ok += 1
            if len(samples) < 3:
                samples.append(r["sample"])
        else:
            ok += 1
    st = dict(E.stats)
    st.update(
        ok=ok,
        refused=refused,
        failing_paths=nfail,
        exhaustive=exhaustive,
        wall_s=round(time.time() - t0, 2),
        fails=fails,
        samples=samples,
        functions=sorted(entered),
        unsupported_sites=dict(E.unsupported_sites),
    )
    return st


_SAMPLES_LEFT = [3]


def sample(**kw):
    """returned by a path that holds, to contribute an example witness to the evidence (only the
    first few per instance are materialised; later calls cost nothing)"""
    if _SAMPLES_LEFT[0] <= 0:
        return None
    _SAMPLES_LEFT[0] -= 1
    return {"sample": witness(**kw)}
