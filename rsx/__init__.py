"""rsx: z3-backed symbolic execution of rope's real code (see /verif/DESIGN.md §2)."""
