"""MFS: a model file system over a small concrete universe of paths whose state (kind, content,
mtime of every path) is symbolic, plus the os / shutil / open shims that route rope's file-system
calls to it (DESIGN.md §3.3).  POSIX semantics for exactly the calls rope makes."""
import io
import os as _os
import shutil as _shutil
import builtins as _builtins
import z3
from . import core
from .core import Unsupported, SymInt, sym_int, zi, mkbool
from .symstr import SymStr, SymBytes, sym_str, tosym, mkbytes, mkstr

ABSENT, FILE, DIR = 0, 1, 2


class Injected(OSError):
    """the single injected file-system fault"""


def _seq(x):
    """content as a tuple of int | z3 terms"""
    if isinstance(x, SymBytes):
        return x.bs
    if isinstance(x, SymStr):
        return x.cs
    if isinstance(x, (bytes, bytearray)):
        return tuple(x)
    if isinstance(x, str):
        return tuple(x.encode("utf-8"))
    raise Unsupported("content %r" % type(x))


class MFS:
    def __init__(self, root, files, dirs):
        self.root = root
        self.FILES = list(files)
        self.DIRS = list(dirs)
        self.U = self.DIRS + self.FILES
        self.kind = {}
        self.content = {}
        self.mtime = {}
        self.ticks = 0
        self.fault_at = None
        self.log = []
        self.overwrites = 0
        self.tick_writes = False  # also count every write() call on an open handle as an event
        self.fault_exc = None
        self.clock = 1000

    @staticmethod
    def parent(p):
        return p.rsplit("/", 1)[0] if "/" in p else ""

    def init_symbolic(self, content_len=1, content_ranges=((97, 122),)):
        E = core.ENGINE
        for p in self.U:
            if p in self.DIRS:
                v = sym_int("kind:" + p, 0, 1)
                self.kind[p] = v * 2  # ABSENT or DIR
            else:
                self.kind[p] = sym_int("kind:" + p, 0, 1)  # ABSENT or FILE
            self.content[p] = mkbytes(tosym(sym_str("content:" + p, content_len, ranges=content_ranges)).cs) if p in self.FILES else b""
            self.mtime[p] = 100
        for p in self.U:
            par = self.parent(p)
            if par:
                E.assume((self.kind[p] == ABSENT) | (self.kind[par] == DIR))

    def init_concrete(self, state):
        """state: {path: None (dir) | bytes (file)}; everything else absent"""
        for p in self.U:
            if p in state:
                self.kind[p] = DIR if state[p] is None else FILE
                self.content[p] = state[p] if state[p] is not None else b""
            else:
                self.kind[p] = ABSENT
                self.content[p] = b""
            self.mtime[p] = 100

    # --- path helpers
    def rel(self, path):
        path = _os.fspath(path)
        if path == self.root:
            return ""
        if path.startswith(self.root + "/"):
            r = _os.path.normpath(path[len(self.root) + 1:]).replace(_os.sep, "/")
            return "" if r == "." else r
        return None

    def k(self, rel):
        if rel == "":
            return DIR
        if rel not in self.kind:
            # a path outside the universe can never come into existence (creating it is
            # Unsupported), so a *query* about it is answered: absent
            return ABSENT
        return self.kind[rel]

    def is_(self, rel, what):
        """python bool (forks when symbolic)"""
        return bool(self.k(rel) == what)

    def children(self, rel):
        return [q for q in self.U if self.parent(q) == rel]

    def descendants(self, rel):
        return [q for q in self.U if q.startswith(rel + "/")]

    def snapshot(self):
        return (dict(self.kind), dict(self.content))

    def restore(self, snap):
        self.kind, self.content = dict(snap[0]), dict(snap[1])

    def differs(self, pre, post=None):
        """z3 Bool (or python bool): observable tree state differs between two snapshots"""
        if post is None:
            post = self.snapshot()
        conds = []
        for p in self.U:
            k0, k1 = zi(pre[0][p]), zi(post[0][p])
            conds.append(k0 != k1)
            if p in self.FILES:
                c0, c1 = _seq(pre[1][p]), _seq(post[1][p])
                if len(c0) != len(c1):
                    conds.append(k0 == FILE)
                else:
                    neq = [zi_(a) != zi_(b) for a, b in zip(c0, c1) if not (isinstance(a, int) and isinstance(b, int) and a == b)]
                    if neq:
                        conds.append(z3.And(k0 == FILE, z3.Or(*neq)))
        return z3.simplify(z3.Or(*conds)) if conds else False

    def concrete(self, model, snap=None):
        """{path: None | bytes} under a model"""
        kind, content = snap if snap is not None else (self.kind, self.content)
        out = {}
        for p in self.U:
            kv = kind[p]
            kv = kv if isinstance(kv, int) else model.eval(zi(kv), model_completion=True).as_long()
            if kv == DIR:
                out[p] = None
            elif kv == FILE:
                out[p] = bytes(c if isinstance(c, int) else model.eval(c, model_completion=True).as_long() for c in _seq(content[p]))
        return out

    # --- fault injection: every mutating primitive ticks once, *before* taking effect
    def tick(self, what):
        self.ticks += 1
        self.log.append(what)
        if self.fault_at is not None and bool(self.fault_at == self.ticks):
            if self.fault_exc is not None:
                raise self.fault_exc("at fs event #%d (%s)" % (self.ticks, what))
            raise Injected(5, "injected fault at fs operation #%d (%s)" % (self.ticks, what))

    def _touch(self, rel):
        self.clock += 1
        self.mtime[rel] = self.clock

    def _touch_parent(self, rel):
        """POSIX: creating, removing or renaming an entry updates the directory's mtime"""
        par = self.parent(rel)
        if par:
            self._touch(par)

    # --- primitive operations (POSIX)
    def op_open_write(self, rel):
        """open(path, 'w'/'wb'): create or truncate"""
        self.tick("open-w " + rel)
        if not self.is_(self.parent(rel), DIR):
            raise FileNotFoundError(2, "No such file or directory", rel)
        if self.is_(rel, DIR):
            raise IsADirectoryError(21, "Is a directory", rel)
        if rel not in self.FILES:
            raise Unsupported("file created at a directory-typed model path %r" % rel)
        if not self.is_(rel, FILE):
            self._touch_parent(rel)
        self.kind[rel] = FILE
        self.content[rel] = b""
        self._touch(rel)

    def op_set_content(self, rel, data):
        self.content[rel] = data
        self._touch(rel)

    def op_read(self, rel):
        if self.is_(rel, ABSENT):
            raise FileNotFoundError(2, "No such file or directory", rel)
        if self.is_(rel, DIR):
            raise IsADirectoryError(21, "Is a directory", rel)
        return self.content[rel]

    def op_mkdir(self, rel):
        self.tick("mkdir " + rel)
        if not self.is_(rel, ABSENT):
            raise FileExistsError(17, "File exists", rel)
        if not self.is_(self.parent(rel), DIR):
            raise FileNotFoundError(2, "No such file or directory", rel)
        if rel not in self.DIRS:
            raise Unsupported("directory created at a file-typed model path %r" % rel)
        self.kind[rel] = DIR
        self._touch(rel)
        self._touch_parent(rel)

    def op_remove_file(self, rel):
        self.tick("remove " + rel)
        if self.is_(rel, ABSENT):
            raise FileNotFoundError(2, "No such file or directory", rel)
        if self.is_(rel, DIR):
            raise IsADirectoryError(21, "Is a directory", rel)
        self.kind[rel] = ABSENT
        self._touch_parent(rel)

    def op_rmtree(self, rel):
        self.tick("rmtree " + rel)
        if self.is_(rel, ABSENT):
            raise FileNotFoundError(2, "No such file or directory", rel)
        if self.is_(rel, FILE):
            raise NotADirectoryError(20, "Not a directory", rel)
        for q in self.descendants(rel):
            self.kind[q] = ABSENT
        self.kind[rel] = ABSENT
        self._touch_parent(rel)

    def op_move(self, a, b):
        """shutil.move(a, b)"""
        self.tick("move %s -> %s" % (a, b))
        if self.is_(a, ABSENT):
            raise FileNotFoundError(2, "No such file or directory", a)
        if b != "" and b not in self.kind:
            raise Unsupported("move destination outside the model universe: %r" % b)
        if self.is_(b, DIR):
            if a == b:
                raise _shutil.Error("destination is the source")
            b2 = (b + "/" if b else "") + a.rsplit("/", 1)[-1]
            if b2 not in self.kind:
                raise Unsupported("move destination outside the model universe: %r" % b2)
            if not self.is_(b2, ABSENT):
                raise _shutil.Error("Destination path '%s' already exists" % b2)
            b = b2
        if not self.is_(self.parent(b), DIR):
            raise FileNotFoundError(2, "No such file or directory", b)
        if b == a:
            return
        if b.startswith(a + "/"):
            raise _shutil.Error("Cannot move a directory into itself")
        if self.is_(a, DIR):
            if not self.is_(b, ABSENT):
                raise OSError(39, "Directory not empty or not a directory", b)
            if b not in self.DIRS:
                raise Unsupported("directory moved to a file-typed model path %r" % b)
            for q in self.descendants(a):
                if not self.is_(q, ABSENT):
                    nq = b + q[len(a):]
                    if nq not in self.kind:
                        raise Unsupported("image of %r outside the model universe: %r" % (q, nq))
                    self.kind[nq] = self.kind[q]
                    self.content[nq] = self.content[q]
                    self.mtime[nq] = self.mtime[q]
                    self.kind[q] = ABSENT
        else:
            if b not in self.FILES:
                raise Unsupported("file moved to a directory-typed model path %r" % b)
            if not self.is_(b, ABSENT):
                self.overwrites += 1  # rename over an existing file: information is destroyed
        self.kind[b] = self.kind[a]
        self.content[b] = self.content[a]
        self.mtime[b] = self.mtime[a]
        self.kind[a] = ABSENT
        self._touch_parent(a)
        self._touch_parent(b)


def zi_(c):
    return core.intval(c) if isinstance(c, int) else c


# ------------------------------------------------------------------------------------------------
class _WriteHandle:
    def __init__(self, fs, rel, binary):
        self.fs, self.rel, self.binary = fs, rel, binary
        self.parts = []
        self.closed = False

    def write(self, data):
        if self.fs.tick_writes:
            self.fs.tick("write " + self.rel)
        self.parts.append(data)
        self._flush()
        return len(data)

    def _flush(self):
        out = ()
        for d in self.parts:
            if isinstance(d, (SymStr, str)) and not self.binary:
                d = tosym(d).encode("utf-8") if isinstance(d, SymStr) else d.encode("utf-8")
            out = out + _seq(d)
        self.fs.op_set_content(self.rel, mkbytes(out))

    def close(self):
        self.closed = True

    def __enter__(self):
        return self

    def __exit__(self, *a):
        self.close()
        return False


class OsPathShim:
    def __init__(self, fs):
        self.fs = fs

    def __getattr__(self, k):
        return getattr(_os.path, k)

    def exists(self, p):
        r = self.fs.rel(p)
        return _os.path.exists(p) if r is None else not self.fs.is_(r, ABSENT)

    def lexists(self, p):
        return self.exists(p)

    def isfile(self, p):
        r = self.fs.rel(p)
        return _os.path.isfile(p) if r is None else self.fs.is_(r, FILE)

    def isdir(self, p):
        r = self.fs.rel(p)
        return _os.path.isdir(p) if r is None else self.fs.is_(r, DIR)

    def islink(self, p):
        r = self.fs.rel(p)
        return _os.path.islink(p) if r is None else False

    def getmtime(self, p):
        r = self.fs.rel(p)
        if r is None:
            return _os.path.getmtime(p)
        if self.fs.is_(r, ABSENT):
            raise FileNotFoundError(2, "No such file or directory", r)
        return self.fs.mtime.get(r, 100)

    def getsize(self, p):
        r = self.fs.rel(p)
        if r is None:
            return _os.path.getsize(p)
        if self.fs.is_(r, ABSENT):
            raise FileNotFoundError(2, "No such file or directory", r)
        return len(_seq(self.fs.content[r])) if r in self.fs.FILES else 4096

    def realpath(self, p, **kw):
        if self.fs.rel(p) is not None:
            return _os.path.normpath(_os.fspath(p))
        return _os.path.realpath(p, **kw)

    def abspath(self, p):
        if self.fs.rel(p) is not None:
            return _os.path.normpath(_os.fspath(p))
        return _os.path.abspath(p)


class OsShim:
    def __init__(self, fs):
        self.fs = fs
        self.path = OsPathShim(fs)

    def __getattr__(self, k):
        return getattr(_os, k)

    def listdir(self, p="."):
        r = self.fs.rel(p)
        if r is None:
            return _os.listdir(p)
        if not self.fs.is_(r, DIR):
            raise NotADirectoryError(20, "Not a directory", r) if not self.fs.is_(r, ABSENT) else FileNotFoundError(2, "No such file or directory", r)
        return [q.rsplit("/", 1)[-1] for q in self.fs.children(r) if not self.fs.is_(q, ABSENT)]

    def mkdir(self, p, mode=0o777):
        r = self.fs.rel(p)
        if r is None:
            raise Unsupported("mkdir outside the model root: %r" % (p,))
        self.fs.op_mkdir(r)

    def remove(self, p):
        r = self.fs.rel(p)
        if r is None:
            raise Unsupported("remove outside the model root: %r" % (p,))
        self.fs.op_remove_file(r)

    unlink = remove

    def rmdir(self, p):
        raise Unsupported("os.rmdir")

    def walk(self, top, *a, **kw):
        raise Unsupported("os.walk on the model file system")

    def stat(self, p, *a, **kw):
        if self.fs.rel(p) is not None:
            raise Unsupported("os.stat on the model file system")
        return _os.stat(p, *a, **kw)


class ShutilShim:
    def __init__(self, fs):
        self.fs = fs

    def __getattr__(self, k):
        return getattr(_shutil, k)

    def move(self, a, b):
        ra, rb = self.fs.rel(a), self.fs.rel(b)
        if ra is None or rb is None:
            raise Unsupported("shutil.move outside the model root")
        self.fs.op_move(ra, rb)

    def rmtree(self, p, *a, **kw):
        r = self.fs.rel(p)
        if r is None:
            raise Unsupported("rmtree outside the model root")
        self.fs.op_rmtree(r)


def make_open(fs):
    def open_(path, mode="r", *a, **kw):
        r = fs.rel(path) if not isinstance(path, int) else None
        if r is None:
            return _builtins.open(path, mode, *a, **kw)
        if "w" in mode:
            fs.op_open_write(r)
            return _WriteHandle(fs, r, "b" in mode)
        if "r" in mode and "+" not in mode:
            data = fs.op_read(r)
            if isinstance(data, (bytes, bytearray)):
                return io.BytesIO(bytes(data)) if "b" in mode else io.StringIO(bytes(data).decode("utf-8"))
            return _ReadHandle(data, "b" in mode)
        raise Unsupported("open mode %r" % mode)

    return open_


class _ReadHandle:
    def __init__(self, data, binary):
        self.data = data if binary else data.decode("utf-8")

    def read(self, n=-1):
        d, self.data = self.data, (b"" if isinstance(self.data, (bytes, SymBytes)) else "")
        return d

    def close(self):
        pass

    def __enter__(self):
        return self

    def __exit__(self, *a):
        return False


FS_MODULES = (
    "rope.base.project",
    "rope.base.change",
    "rope.base.resources",
    "rope.base.resourceobserver",
    "rope.base.fscommands",
    "rope.base.libutils",
    "rope.base.pycore",
    "rope.base.history",
)


def install(fs, modules=FS_MODULES):
    """route os / shutil / open of the listed rope modules to `fs`; returns an undo function"""
    import sys

    saved = []
    osshim, shshim, op = OsShim(fs), ShutilShim(fs), make_open(fs)
    for name in modules:
        m = sys.modules.get(name)
        if m is None:
            continue
        for attr, val in (("os", osshim), ("shutil", shshim), ("open", op)):
            had = attr in vars(m)
            if attr == "open" or had:
                saved.append((m, attr, vars(m).get(attr), had))
                setattr(m, attr, val)

    def undo():
        for m, attr, old, had in reversed(saved):
            if had:
                setattr(m, attr, old)
            else:
                try:
                    delattr(m, attr)
                except AttributeError:
                    pass

    return undo
