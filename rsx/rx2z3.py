"""rx2z3: translate a Python `re` pattern (via re._parser) into a z3 regular-expression term and
decide language inclusion for strings of unbounded length (DESIGN.md §3.4).  Look-arounds, anchors
and back-references are not regular operators here: patterns containing them are rejected."""
import re._parser as sp
from re._constants import (
    LITERAL, NOT_LITERAL, ANY, IN, BRANCH, SUBPATTERN, MAX_REPEAT, MIN_REPEAT, NEGATE, RANGE, CATEGORY,
    MAXREPEAT, CATEGORY_DIGIT, CATEGORY_SPACE, CATEGORY_WORD, CATEGORY_NOT_DIGIT, CATEGORY_NOT_SPACE, CATEGORY_NOT_WORD,
)
import z3

SIGMA = z3.Range(chr(0), chr(127))  # ASCII alphabet of the queries


class NotRegular(Exception):
    pass


def _cat(av):
    d = z3.Range("0", "9")
    s = z3.Union(z3.Range("\t", "\r"), z3.Re(" "))
    w = z3.Union(z3.Range("0", "9"), z3.Range("a", "z"), z3.Range("A", "Z"), z3.Re("_"))
    if av is CATEGORY_DIGIT:
        return d
    if av is CATEGORY_SPACE:
        return s
    if av is CATEGORY_WORD:
        return w
    if av is CATEGORY_NOT_DIGIT:
        return z3.Intersect(SIGMA, z3.Complement(d))
    if av is CATEGORY_NOT_SPACE:
        return z3.Intersect(SIGMA, z3.Complement(s))
    if av is CATEGORY_NOT_WORD:
        return z3.Intersect(SIGMA, z3.Complement(w))
    raise NotRegular(str(av))


def _cls(items):
    neg = False
    parts = []
    for op, av in items:
        if op is NEGATE:
            neg = True
        elif op is LITERAL:
            parts.append(z3.Re(chr(av)))
        elif op is RANGE:
            parts.append(z3.Range(chr(av[0]), chr(av[1])))
        elif op is CATEGORY:
            parts.append(_cat(av))
        else:
            raise NotRegular(str(op))
    r = z3.Union(*parts) if len(parts) > 1 else parts[0]
    if neg:
        r = z3.Intersect(SIGMA, z3.Complement(r))
    return r


LENIENT = [False]  # when set, alternatives of a BRANCH that are not regular are dropped (sound
# only for the right-hand side of an inclusion query: it makes that language smaller)


def _alts(av):
    out = []
    for a in av[1]:
        try:
            out.append(_tr(a))
        except NotRegular:
            if not LENIENT[0]:
                raise
    if not out:
        raise NotRegular("no regular alternative")
    return out


def _tr(sub):
    out = []
    for op, av in sub:
        if op is LITERAL:
            out.append(z3.Re(chr(av)))
        elif op is NOT_LITERAL:
            out.append(z3.Intersect(SIGMA, z3.Complement(z3.Re(chr(av)))))
        elif op is ANY:
            out.append(z3.Intersect(SIGMA, z3.Complement(z3.Re("\n"))))
        elif op is IN:
            out.append(_cls(av))
        elif op is BRANCH:
            alts = _alts(av)
            out.append(z3.Union(*alts) if len(alts) > 1 else alts[0])
        elif op is SUBPATTERN:
            out.append(_tr(av[3]))
        elif op in (MAX_REPEAT, MIN_REPEAT):
            lo, hi, p = av
            b = _tr(p)
            if hi is MAXREPEAT:
                out.append(z3.Star(b) if lo == 0 else z3.Plus(b) if lo == 1 else z3.Concat(*([b] * lo + [z3.Star(b)])))
            elif lo == 0 and hi == 1:
                out.append(z3.Option(b))
            else:
                out.append(z3.Loop(b, lo, hi))
        else:
            raise NotRegular(str(op))
    if not out:
        return z3.Re("")
    return z3.Concat(*out) if len(out) > 1 else out[0]


def rx(pattern, flags=0):
    return _tr(sp.parse(pattern, flags))


def included(a, b, extra=None, timeout_ms=60000):
    """is L(a) (intersected with `extra` if given) a subset of L(b)?  returns (verdict, witness):
    ('yes', None) | ('no', str) | ('unknown', None).  Strings are of unbounded length."""
    s = z3.String("s")
    sol = z3.Solver()
    sol.set("timeout", timeout_ms)
    ra = rx(a)
    LENIENT[0] = True
    try:
        rb = rx(b)
    finally:
        LENIENT[0] = False
    sol.add(z3.InRe(s, ra), z3.Not(z3.InRe(s, rb)))
    if extra is not None:
        sol.add(extra(s))
    r = sol.check()
    if r == z3.unsat:
        return "yes", None
    if r == z3.sat:
        return "no", sol.model()[s].as_string()
    return "unknown", None
