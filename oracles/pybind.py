"""pybind: reference binder.  For every identifier token of a (multi-module) program: which
binding — a pair (owning scope, name) — does it denote under Python's scoping rules?

Plain Python (ast + tokenize); follows the language reference, not symtable's 3.12 inlining of
comprehensions; cross-checked against symtable by `xcheck` (selftest) — see DESIGN.md §3.2."""
import ast
import builtins
import io
import symtable
import tokenize


class Sc:
    def __init__(self, kind, node, parent, name="", module=None):
        self.kind, self.node, self.parent, self.name = kind, node, parent, name
        self.module = module if module is not None else (parent.module if parent else None)
        self.bound, self.globals_decl, self.nonlocals, self.children = set(), set(), set(), []
        self.imports = {}  # local name (un-aliased imports only) -> ("module", modname) | ("from", modname, attr, level)
        self.nimport = {}  # local name -> number of import statements binding it
        if parent:
            parent.children.append(self)

    def path(self):
        return (self.parent.path() if self.parent else (self.module,)) + ((self.kind, self.name, getattr(self.node, "lineno", 0), getattr(self.node, "col_offset", 0)),)


class Collector(ast.NodeVisitor):
    """tokens: list of (offset, name, scope, role); role in use/bind/def/param/import/global/kwarg/attr"""

    def __init__(self, src, modname="<m>"):
        self.src = src
        self.tree = ast.parse(src)
        self.starts = [0]
        for i, ch in enumerate(src):
            if ch == "\n":
                self.starts.append(i + 1)
        self.module = self.cur = Sc("module", self.tree, None, module=modname)
        self.tokens = []
        self.flags = {}  # offset -> set of context flags (default, walrus, ...)
        self.ctx = []
        self.calls = []  # (call node, scope)
        self._names = self._name_tokens()
        for st in self.tree.body:
            self.visit(st)

    # -- positions (ast columns are utf-8 byte offsets; sources here are ASCII)
    def off(self, lineno, col):
        return self.starts[lineno - 1] + col

    def _name_tokens(self):
        out = []
        for t in tokenize.generate_tokens(io.StringIO(self.src).readline):
            if t.type == tokenize.NAME:
                out.append((self.off(*t.start), t.string))
        return out

    def _first_name_after(self, offset, name):
        for o, s in self._names:
            if o >= offset and s == name:
                return o
        return None

    def bind(self, name, scope=None):
        (scope or self.cur).bound.add(name)

    def tok(self, offset, name, role, scope=None):
        self.tokens.append((offset, name, scope or self.cur, role))
        if self.ctx:
            self.flags.setdefault(offset, set()).update(self.ctx)

    def _walrus_scope(self):
        s = self.cur
        while s.kind == "comp":
            s = s.parent
        return s

    def visit_Name(self, n):
        if isinstance(n.ctx, (ast.Store, ast.Del)):
            self.bind(n.id)
            self.tok(self.off(n.lineno, n.col_offset), n.id, "bind")
        else:
            self.tok(self.off(n.lineno, n.col_offset), n.id, "use")

    def visit_NamedExpr(self, n):
        self.visit(n.value)
        s = self._walrus_scope()
        s.bound.add(n.target.id)
        o = self.off(n.target.lineno, n.target.col_offset)
        self.tok(o, n.target.id, "bind", s)
        if s is not self.cur:
            self.flags.setdefault(o, set()).add("walruscomp")

    def visit_Attribute(self, n):
        self.visit(n.value)
        self.tok(self.off(n.end_lineno, n.end_col_offset) - len(n.attr), n.attr, "attr")
        self.tokens[-1] = self.tokens[-1] + (n,)

    def visit_Global(self, n):
        self.cur.globals_decl.update(n.names)
        self.module.bound.update(n.names)
        pos = self.off(n.lineno, n.col_offset)
        for name in n.names:
            o = self._first_name_after(pos + 1, name)
            self.tok(o, name, "global")
            pos = o

    def visit_Nonlocal(self, n):
        self.cur.nonlocals.update(n.names)
        pos = self.off(n.lineno, n.col_offset)
        for name in n.names:
            o = self._first_name_after(pos + 1, name)
            self.tok(o, name, "nonlocal")
            pos = o

    def visit_Import(self, n):
        for a in n.names:
            local = a.asname or a.name.split(".")[0]
            self.bind(local)
            self.cur.nimport[local] = self.cur.nimport.get(local, 0) + 1
            if not a.asname:
                self.cur.imports[local] = ("module", a.name.split(".")[0])
            start = self.off(a.lineno, a.col_offset)
            first = a.name.split(".")[0]
            self.tok(start, first, "import-module")
            self.tokens[-1] = self.tokens[-1] + (a.name, bool(a.asname))
            if a.asname:
                self.tok(self.off(a.end_lineno, a.end_col_offset) - len(a.asname), a.asname, "import-as")

    def visit_ImportFrom(self, n):
        for a in n.names:
            if a.name == "*":
                self.cur.star = getattr(self.cur, "star", []) + [(n.module, n.level)]
                continue
            local = a.asname or a.name
            self.bind(local)
            self.cur.nimport[local] = self.cur.nimport.get(local, 0) + 1
            if not a.asname or a.asname == a.name:
                self.cur.imports[local] = ("from", n.module or "", a.name, n.level)
            start = self.off(a.lineno, a.col_offset)
            self.tok(start, a.name, "import-from")
            self.tokens[-1] = self.tokens[-1] + (n.module or "", n.level, bool(a.asname))
            if a.asname:
                self.tok(self.off(a.end_lineno, a.end_col_offset) - len(a.asname), a.asname, "import-as")

    def visit_ExceptHandler(self, n):
        if n.type:
            self.visit(n.type)
        if n.name:
            self.bind(n.name)
            o = self._first_name_after(self.off(n.type.end_lineno, n.type.end_col_offset) if n.type else self.off(n.lineno, n.col_offset), n.name)
            self.tok(o, n.name, "bind")
        for s in n.body:
            self.visit(s)

    def _pattern_name(self, n, name):
        self.bind(name)
        o = self._first_name_after(self.off(n.lineno, n.col_offset), name)
        # a capture name is the last NAME of the pattern node text
        cands = [o2 for o2, s in self._names if s == name and self.off(n.lineno, n.col_offset) <= o2 < self.off(n.end_lineno, n.end_col_offset)]
        self.tok(cands[-1] if cands else o, name, "bind")

    def visit_MatchAs(self, n):
        if n.pattern:
            self.visit(n.pattern)
        if n.name:
            self._pattern_name(n, n.name)

    def visit_MatchStar(self, n):
        if n.name:
            self._pattern_name(n, n.name)

    def visit_MatchMapping(self, n):
        for k in n.keys:
            self.visit(k)
        for p in n.patterns:
            self.visit(p)
        if n.rest:
            self._pattern_name(n, n.rest)

    def _all_args(self, a):
        return a.posonlyargs + a.args + ([a.vararg] if a.vararg else []) + a.kwonlyargs + ([a.kwarg] if a.kwarg else [])

    def _args(self, a, scope):
        for x in self._all_args(a):
            scope.bound.add(x.arg)
            self.tokens.append((self.off(x.lineno, x.col_offset), x.arg, scope, "param"))

    def _outer_arg_exprs(self, a):
        self.ctx.append("default")
        for d in a.defaults + [d for d in a.kw_defaults if d is not None]:
            self.visit(d)
        for x in self._all_args(a):
            if x.annotation:
                self.visit(x.annotation)
        self.ctx.pop()

    def visit_FunctionDef(self, n):
        self.bind(n.name)
        for d in n.decorator_list:
            self.visit(d)
        kw = "def"
        o = self._first_name_after(self.off(n.lineno, n.col_offset), kw)
        self.tok(self._first_name_after(o + 1, n.name), n.name, "def")
        self._outer_arg_exprs(n.args)
        if n.returns:
            self.visit(n.returns)
        s = Sc("function", n, self.cur, n.name)
        self._args(n.args, s)
        old, self.cur = self.cur, s
        for st in n.body:
            self.visit(st)
        self.cur = old

    visit_AsyncFunctionDef = visit_FunctionDef

    def visit_Lambda(self, n):
        self._outer_arg_exprs(n.args)
        s = Sc("lambda", n, self.cur, "lambda")
        self._args(n.args, s)
        old, self.cur = self.cur, s
        self.visit(n.body)
        self.cur = old

    def visit_ClassDef(self, n):
        self.bind(n.name)
        for d in n.decorator_list:
            self.visit(d)
        o = self._first_name_after(self.off(n.lineno, n.col_offset), "class")
        self.tok(self._first_name_after(o + 1, n.name), n.name, "def")
        for d in n.bases + [k.value for k in n.keywords]:
            self.visit(d)
        s = Sc("class", n, self.cur, n.name)
        old, self.cur = self.cur, s
        for st in n.body:
            self.visit(st)
        self.cur = old

    def _comp(self, n, elts):
        gens = n.generators
        self.visit(gens[0].iter)  # evaluated in the enclosing scope
        s = Sc("comp", n, self.cur, type(n).__name__)
        old, self.cur = self.cur, s
        self.visit(gens[0].target)
        for c in gens[0].ifs:
            self.visit(c)
        for g in gens[1:]:
            self.visit(g.iter)
            self.visit(g.target)
            for c in g.ifs:
                self.visit(c)
        for e in elts:
            self.visit(e)
        self.cur = old

    def visit_ListComp(self, n):
        self._comp(n, [n.elt])

    visit_SetComp = visit_GeneratorExp = visit_ListComp

    def visit_DictComp(self, n):
        self._comp(n, [n.key, n.value])

    def visit_Call(self, n):
        self.calls.append((n, self.cur))
        self.visit(n.func)
        for a in n.args:
            self.visit(a)
        for k in n.keywords:
            if k.arg is not None:
                self.tok(self.off(k.lineno, k.col_offset), k.arg, "kwarg")
                self.tokens[-1] = self.tokens[-1] + (n,)
            self.visit(k.value)


def resolve(scope, name, module):
    """(scope, name) of the binding that `name` used in `scope` denotes; scope may be 'builtin'/'unbound'"""
    s = scope
    if name in s.globals_decl:
        return (module, name)
    if name in s.bound and name not in s.nonlocals:
        return (s, name)
    p = s.parent
    while p is not None and p.kind != "module":
        if p.kind == "class":
            p = p.parent
            continue
        if name in p.globals_decl:
            return (module, name)
        if name in p.bound and name not in p.nonlocals:
            return (p, name)
        p = p.parent
    if name in module.bound:
        return (module, name)
    return ("builtin" if hasattr(builtins, name) else "unbound", name)


class Program:
    """a project: {path: source}.  bindings() maps (path, offset) -> binding key"""

    def __init__(self, files):
        self.files = {p: s for p, s in files.items() if p.endswith(".py") and isinstance(s, str)}
        self.mods = {}
        for p, s in self.files.items():
            parts = p[:-3].split("/")
            name = ".".join(parts[:-1]) if parts[-1] == "__init__" else ".".join(parts)
            self.mods[name] = (p, Collector(s, name), parts[-1] == "__init__")

    def _abs(self, cur_mod, is_pkg, modname, level):
        if level == 0:
            return modname
        parts = cur_mod.split(".") if cur_mod else []
        if not is_pkg:
            parts = parts[:-1]
        parts = parts[: len(parts) - (level - 1)] if level > 1 else parts
        return ".".join(parts + ([modname] if modname else []))

    def _follow(self, modname, name, depth=0):
        """binding key of attribute `name` of module `modname` (following from-imports), or None"""
        if depth > 8:
            return None
        if modname + "." + name in self.mods:
            return ("module", modname + "." + name)
        if modname not in self.mods:
            return None
        p, c, is_pkg = self.mods[modname]
        if name not in c.module.bound:
            return None
        if self._ambiguous(c, c.module, name):
            return ("ambiguous", c.module.path(), name)
        imp = c.module.imports.get(name)
        if imp is not None:
            if imp[0] == "module":
                return ("module", imp[1])
            target = self._abs(modname, is_pkg, imp[1], imp[3])
            k = self._follow(target, imp[2], depth + 1)
            if k is not None:
                return k
            return ("extern", target, imp[2])
        return (c.module.path(), name)

    def key_of(self, modname, scope, name):
        p, c, is_pkg = self.mods[modname]
        r = resolve(scope, name, c.module)
        if not isinstance(r[0], Sc):
            return (r[0], name)
        owner = r[0]
        if self._ambiguous(c, owner, name):
            return ("ambiguous", owner.path(), name)
        imp = owner.imports.get(name)
        if imp is not None:
            if imp[0] == "module":
                return ("module", imp[1])
            target = self._abs(modname, is_pkg, imp[1], imp[3])
            k = self._follow(target, imp[2])
            return k if k is not None else ("extern", target, imp[2])
        return (owner.path(), name)

    def _ambiguous(self, c, scope, name):
        """a name bound in one scope by an import statement and also by something else (or by two
        import statements) does not denote one statically determined definition"""
        ni = scope.nimport.get(name, 0)
        if ni == 0:
            return False
        if ni > 1:
            return True
        other = [t for t in c.tokens if t[2] is scope and t[1] == name and t[3] in ("bind", "param", "def")]
        return bool(other)

    def bindings(self):
        out = {}
        for modname, (p, c, is_pkg) in self.mods.items():
            for t in c.tokens:
                off, name, sc, role = t[:4]
                if off is None:
                    continue
                if role in ("use", "bind", "def", "param", "global", "nonlocal", "import-as"):
                    k = self.key_of(modname, sc, name)
                    if role == "use" and sc.kind == "class" and name in sc.bound and name not in sc.globals_decl and name not in sc.nonlocals:
                        outer = resolve(sc.parent, name, c.module) if sc.parent.kind != "class" else ("unbound", name)
                        if isinstance(outer[0], Sc) or outer[0] == "builtin":
                            # LOAD_NAME in a class body: the class-local binding if already executed,
                            # else the enclosing/global one -- flow dependent, not statically determined
                            k = ("ambiguous", sc.path(), name)
                            c.flags.setdefault(off, set()).add("classfall")
                    out[(p, off)] = (k, name, role)
                elif role == "import-from":
                    target = self._abs(modname, is_pkg, t[4], t[5])
                    k = self._follow(target, name)
                    if not t[6] and self._ambiguous(c, sc, name):
                        k = ("ambiguous", sc.path(), name)  # the token is also the (ambiguous) local binding
                    out[(p, off)] = (k if k is not None else ("extern", target, name), name, role)
                elif role == "import-module":
                    out[(p, off)] = (("module", name), name, role)
                elif role == "attr":
                    node = t[4]
                    k = None
                    if isinstance(node.value, ast.Name):
                        base = self.key_of(modname, sc, node.value.id)
                        if base[0] == "module":
                            k = self._follow(base[1], name)
                    out[(p, off)] = (k, name, role)
                elif role == "kwarg":
                    call = t[4]
                    k = None
                    if isinstance(call.func, ast.Name):
                        fk = self.key_of(modname, sc, call.func.id)
                        fn = self._def_node(fk)
                        if isinstance(fn, (ast.FunctionDef, ast.AsyncFunctionDef)):
                            params = [a.arg for a in fn.args.posonlyargs + fn.args.args + fn.args.kwonlyargs]
                            if name in params:
                                k = (fk[0] + (("function", fn.name, fn.lineno, fn.col_offset),), name)
                    out[(p, off)] = (k, name, role)
        return out

    def _def_node(self, key):
        """the def/class node a binding key denotes if it is bound exactly once by a def/class"""
        if not (isinstance(key, tuple) and len(key) == 2 and isinstance(key[0], tuple)):
            return None
        path, name = key
        modname = path[0]
        if modname not in self.mods:
            return None
        c = self.mods[modname][1]
        sc = c.module
        for kind, nm, ln, col in path[2:]:
            sc = next((x for x in sc.children if (x.kind, x.name, getattr(x.node, "lineno", 0), getattr(x.node, "col_offset", 0)) == (kind, nm, ln, col)), None)
            if sc is None:
                return None
        cands = [ch.node for ch in sc.children if ch.kind in ("function", "class") and ch.name == name]
        binds = [t for t in c.tokens if t[2] is sc and t[1] == name and t[3] in ("bind", "param", "def")]
        if len(cands) == 1 and len(binds) == 1:
            return cands[0]
        return None


def bindings(src):
    """single-module convenience: {offset: (key, name, role)}"""
    pr = Program({"m.py": src})
    return {off: v for (p, off), v in pr.bindings().items()}


# ---- cross-check against symtable (function / class / lambda / genexpr tables)
def xcheck(src):
    c = Collector(src)
    top = symtable.symtable(src, "<s>", "exec")
    problems = []

    def tables(t, acc):
        acc.append(t)
        for ch in t.get_children():
            tables(ch, acc)
        return acc

    def scopes(s, acc):
        acc.append(s)
        for ch in s.children:
            scopes(ch, acc)
        return acc

    mine = [s for s in scopes(c.module, []) if not (s.kind == "comp" and not isinstance(s.node, ast.GeneratorExp))]
    theirs = tables(top, [])
    mine.sort(key=lambda s: (getattr(s.node, "lineno", 0), getattr(s.node, "col_offset", 0)))
    theirs_sorted = sorted(theirs, key=lambda t: t.get_lineno())
    if len(mine) != len(theirs):
        return [("scope-count", len(mine), len(theirs))]
    inlined = set()
    for s in scopes(c.module, []):
        if s.kind == "comp" and not isinstance(s.node, ast.GeneratorExp):
            inlined |= s.bound
    for s, t in zip(mine, theirs_sorted):
        names = {tk[1] for tk in c.tokens if tk[2] is s and tk[3] not in ("attr", "kwarg", "import-module", "import-from")} | s.bound
        for n in names:
            if n in inlined or n.startswith("."):
                continue
            try:
                sym = t.lookup(n)
            except KeyError:
                problems.append(("missing-in-symtable", s.path(), n))
                continue
            r = resolve(s, n, c.module)
            kind = "local" if r[0] is s else ("global" if (r[0] is c.module or r[0] in ("builtin", "unbound")) else "free")
            if s.kind == "module":
                kind = "global" if kind == "local" else kind
            py = "local" if (sym.is_local() and not t.get_type() == "module") else ("free" if sym.is_free() else "global")
            if t.get_type() == "module":
                py = "global"
            if kind != py:
                problems.append((s.path(), n, "mine", kind, "py", py))
    return problems
