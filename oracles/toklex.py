"""toklex: lexical facts straight from the interpreter's own tokenizer (plain Python, no rsx).
Used as the oracle in replays on un-instrumented rope and to validate `reflex` at path witnesses."""
import io
import token
import tokenize


class TokInvalid(Exception):
    pass


def _offsets(text):
    starts = [0]
    for i, ch in enumerate(text):
        if ch == "\n":
            starts.append(i + 1)
    return starts


def tokens(text):
    try:
        return list(tokenize.generate_tokens(io.StringIO(text).readline))
    except (tokenize.TokenError, SyntaxError, IndentationError) as e:
        raise TokInvalid(str(e))


def string_comment_spans(text):
    """[(kind, start, end)] char offsets of STRING / f-string / COMMENT tokens"""
    starts = _offsets(text)

    def off(pos):
        return starts[pos[0] - 1] + pos[1]

    out = []
    fstack = []
    for t in tokens(text):
        if t.type == token.ERRORTOKEN:
            raise TokInvalid("ERRORTOKEN %r" % (t.string,))
        if t.type == tokenize.COMMENT:
            if not fstack:
                out.append(("COMMENT", off(t.start), off(t.end)))
        elif t.type == token.STRING:
            if not fstack:
                out.append(("STRING", off(t.start), off(t.end)))
        elif t.type == getattr(token, "FSTRING_START", -1):
            fstack.append(off(t.start))
        elif t.type == getattr(token, "FSTRING_END", -1):
            s = fstack.pop()
            if not fstack:
                out.append(("FSTRING", s, off(t.end)))
    return out


def logical_lines(text):
    """[(first_line, last_line)] 1-based physical line ranges of the logical lines (NEWLINE tokens)"""
    out = []
    first = None
    for t in tokens(text):
        if t.type == token.ERRORTOKEN:
            raise TokInvalid("ERRORTOKEN")
        if t.type in (tokenize.NL, tokenize.COMMENT, token.INDENT, token.DEDENT, token.ENDMARKER):
            continue
        if t.type == token.NEWLINE:
            if first is not None:
                out.append((first, t.start[0]))
            first = None
            continue
        if first is None:
            first = t.start[0]
    return out


def name_tokens(text):
    starts = _offsets(text)
    return [(starts[t.start[0] - 1] + t.start[1], starts[t.end[0] - 1] + t.end[1], t.string) for t in tokens(text) if t.type == token.NAME]
