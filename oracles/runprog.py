"""run(files, entry): execute a small multi-module program given as {path: source} and return
(stdout, exception type name or None).  Executed in a forked child with an in-memory importer, so
it costs a few milliseconds and cannot disturb the caller.  Plain Python (used by harnesses and
by replays)."""
import importlib.abc
import importlib.util
import io
import os
import pickle
import signal
import sys


class _MemFinder(importlib.abc.MetaPathFinder, importlib.abc.Loader):
    def __init__(self, files):
        self.mods = {}
        for path, src in files.items():
            if not path.endswith(".py"):
                continue
            parts = path[:-3].split("/")
            if parts[-1] == "__init__":
                self.mods[".".join(parts[:-1])] = (src, True, path)
            else:
                self.mods[".".join(parts)] = (src, False, path)
        # namespace-less folders with python files but no __init__ are treated as packages too
        for name in list(self.mods):
            parts = name.split(".")
            for i in range(1, len(parts)):
                pkg = ".".join(parts[:i])
                if pkg not in self.mods:
                    self.mods[pkg] = ("", True, pkg.replace(".", "/") + "/<implicit>")

    def find_spec(self, fullname, path=None, target=None):
        if fullname in self.mods:
            src, is_pkg, p = self.mods[fullname]
            return importlib.util.spec_from_loader(fullname, self, origin=p, is_package=is_pkg)
        return None

    def create_module(self, spec):
        return None

    def exec_module(self, module):
        src, is_pkg, p = self.mods[module.__name__]
        exec(compile(src, p, "exec"), module.__dict__)


def _child(files, entry, wfd, argv):
    out = io.StringIO()
    exc = None
    try:
        signal.alarm(10)
        sys.meta_path.insert(0, _MemFinder(files))
        for k in [k for k in sys.modules if k.split(".")[0] in {p.split("/")[0].replace(".py", "") for p in files}]:
            del sys.modules[k]
        sys.stdout = out
        sys.stderr = io.StringIO()
        sys.argv = [entry] + list(argv)
        g = {"__name__": "__main__", "__file__": entry}
        try:
            exec(compile(files[entry], entry, "exec"), g)
        except SystemExit as e:
            exc = "SystemExit:%s" % (e.code,)
        except BaseException as e:
            exc = type(e).__name__
    except BaseException as e:  # pragma: no cover
        exc = "runner:" + type(e).__name__
    try:
        data = pickle.dumps((out.getvalue(), exc))
        os.write(wfd, data)
    finally:
        os._exit(0)


def run(files, entry="main.py", argv=()):
    files = {k: v for k, v in files.items() if isinstance(v, str)}
    r, w = os.pipe()
    pid = os.fork()
    if pid == 0:
        os.close(r)
        _child(files, entry, w, argv)
    os.close(w)
    chunks = []
    while True:
        b = os.read(r, 65536)
        if not b:
            break
        chunks.append(b)
    os.close(r)
    os.waitpid(pid, 0)
    if not chunks:
        return ("", "runner:died")
    return pickle.loads(b"".join(chunks))


import warnings as _w

_w.simplefilter("ignore", SyntaxWarning)  # generated programs like "1if x" only matter if they fail


def compiles(files):
    """first syntax error among the python files, or None"""
    for p, src in sorted(files.items()):
        if p.endswith(".py") and isinstance(src, str):
            try:
                compile(src, p, "exec")
            except SyntaxError as e:
                return "%s: %s" % (p, e)
    return None
