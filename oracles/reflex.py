"""reflex: a short reference lexer for the part of Python's lexical structure that rope's text
functions depend on (string prefixes / quotes / escapes / triple quotes, comments, bracket depth,
backslash continuation, logical lines).  It runs *symbolically in the same path* as the code under
test (every character test is a solver decision), and is itself compared with the real `tokenize`
at path witnesses (oracles.toklex).  f-string replacement fields are not modelled: harness
alphabets for f-string bodies exclude `{` and `}`."""
from rsx.core import mkbool
from rsx import symstr as S
from rsx.symstr import tosym

PREFIXES = {"", "r", "u", "b", "f", "br", "rb", "fr", "rf"}


class LexInvalid(Exception):
    pass


def _is(c, chars):
    return bool(mkbool(S._or([S._ceq(c, ord(x)) for x in chars])))


def _idchar(c):
    return bool(mkbool(S._or([S._in_ranges(c, S.ASCII_ALNUM), S._ceq(c, 95), S._in_ranges(c, [(128, 255)])])))


def _lower(c):
    """concrete lower-case letter of a char already known (by forks) to be one of rRbBuUfF"""
    for ch in "rbuf":
        if _is(c, ch + ch.upper()):
            return ch
    return None


def lex(text):
    """returns (tokens, logical) where tokens = [(kind, start, end)] for kind in STRING/COMMENT
    (FSTRING for f-prefixed) and logical = list of (first_physical_line, last_physical_line),
    1-based, for every logical line containing a token other than comment/blank.
    Raises LexInvalid on text the tokenizer would reject (unterminated string, stray backslash,
    unbalanced bracket)."""
    cs = tosym(text).cs
    n = len(cs)
    i = 0
    depth = 0
    line = 1
    tokens = []
    logical = []
    cur_start = None  # first physical line of the logical line being built (has content)
    while i < n:
        c = cs[i]
        if _is(c, "\n"):
            if depth == 0 and cur_start is not None:
                logical.append((cur_start, line))
                cur_start = None
            line += 1
            i += 1
            continue
        if _is(c, " \t\f"):
            i += 1
            continue
        if _is(c, "\r"):
            raise LexInvalid("CR not modelled")
        if _is(c, "#"):
            j = i
            while j < n and not _is(cs[j], "\n"):
                j += 1
            tokens.append(("COMMENT", i, j))
            i = j
            continue
        if _is(c, "\\"):
            if i + 1 < n and _is(cs[i + 1], "\n"):
                line += 1
                i += 2
                if i >= n:
                    raise LexInvalid("EOF after continuation")
                continue
            raise LexInvalid("stray backslash")
        if cur_start is None:
            cur_start = line
        if _is(c, "([{"):
            depth += 1
            i += 1
            continue
        if _is(c, ")]}"):
            depth -= 1
            if depth < 0:
                raise LexInvalid("unbalanced")
            i += 1
            continue
        if _is(c, "'\""):
            i, line = _string(cs, i, i, "", tokens, line)
            continue
        if _idchar(c):
            j = i
            while j < n and _idchar(cs[j]):
                j += 1
            # maximal identifier run [i, j); a string prefix only if the whole run is a valid prefix
            if j < n and j - i <= 2 and _is(cs[j], "'\""):
                letters = []
                for k in range(i, j):
                    letters.append(_lower(cs[k]) if _is(cs[k], "rRbBuUfF") else None)
                if None not in letters and "".join(letters) in PREFIXES:
                    i, line = _string(cs, i, j, "".join(letters), tokens, line)
                    continue
            i = j
            continue
        i += 1  # operator / punctuation
    if depth != 0:
        raise LexInvalid("unbalanced at EOF")
    if cur_start is not None:
        logical.append((cur_start, line))
    return tokens, logical


def _string(cs, start, q, prefix, tokens, line):
    n = len(cs)
    qc = cs[q]
    triple = q + 2 < n and bool(mkbool(S._and([S._ceq(cs[q + 1], qc), S._ceq(cs[q + 2], qc)])))
    # an empty string '' followed by something else is not a triple quote
    i = q + (3 if triple else 1)
    while True:
        if i >= n:
            raise LexInvalid("unterminated string")
        c = cs[i]
        if _is(c, "\\"):
            if i + 1 >= n:
                raise LexInvalid("unterminated string")
            if _is(cs[i + 1], "\n"):
                line += 1
            i += 2
            continue
        if _is(c, "\n"):
            if not triple:
                raise LexInvalid("newline in string")
            line += 1
            i += 1
            continue
        if bool(mkbool(S._ceq(c, qc))):
            if not triple:
                i += 1
                break
            if i + 2 < n + 0 and i + 2 <= n - 1 and bool(mkbool(S._and([S._ceq(cs[i + 1], qc), S._ceq(cs[i + 2], qc)]))):
                i += 3
                break
            i += 1
            continue
        if "f" in prefix and _is(c, "{}"):
            raise LexInvalid("f-string field not modelled")
        i += 1
    tokens.append(("FSTRING" if "f" in prefix else "STRING", start, i))
    return i, line
